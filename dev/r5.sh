#!/bin/bash
# confirm round-5 changes in their scratch worktrees, then run the relevant quick checks against each in a scratch worktree (never /repo)
export CARGO_NET_OFFLINE=true
confirm() { # id letter
  local wt=/tmp/mut/r5-$1 L=$2 out=/verif/seeded/r5-$1-$2
  cd $wt; git reset -q; git checkout -q -- .; git clean -fdq src
  export CARGO_TARGET_DIR=$wt/target
  git apply _out/${L}_patch.diff || { echo "r5-$1-$L patch does not apply"; return; }
  r1=$(cargo test --offline 2>&1 | grep -E "^test result" | head -1)
  git apply _out/${L}_demo.diff || { echo "r5-$1-$L demo does not apply"; }
  r2=$(cargo test --offline 2>&1 | grep -E "^test result" | head -1)
  git apply -R _out/${L}_patch.diff
  r3=$(cargo test --offline 2>&1 | grep -E "^test result" | head -1)
  git reset -q; git checkout -q -- .; git clean -fdq src
  mkdir -p $out; cp _out/${L}_patch.diff $out/patch.diff; cp _out/${L}_demo.diff $out/demo.diff
  echo "r5-$1-$L | with change, suite: $r1 | with change + demo: $r2 | demo only: $r3" | tee $out/confirm.txt
  unset CARGO_TARGET_DIR
}
check() { # seeded-dir prop[:only]...
  local d=$1; shift
  cd /tmp/wtm && git reset -q && git checkout -q -- . && git clean -fdq src && git apply /verif/seeded/$d/patch.diff || { echo "MUT $d patch failed"; return; }
  for spec in "$@"; do
    p=${spec%%:*}; only=""; [[ "$spec" == *:* ]] && only="--only ${spec#*:}"
    rm -rf /tmp/outm; mkdir -p /tmp/outm; cp /verif/known_findings.json /tmp/outm/
    ( cd /verif && VERIF_REPO=/tmp/wtm VERIF_OUT=/tmp/outm ./check $p $only --jobs ${JOBS:-16} > /tmp/r5check_${d}_${p}.log 2>&1 ); rc=$?
    echo "MUT $d $spec exit=$rc violations=$(grep -c '^VIOLATION' /tmp/r5check_${d}_${p}.log) $(grep '^VIOLATION' /tmp/r5check_${d}_${p}.log | head -2 | sed 's/.*# //' | tr '\n' ';' | cut -c1-230)"
    grep '^INCONCLUSIVE' /tmp/r5check_${d}_${p}.log | head -1 | cut -c1-260
  done
}
if [ "$1" != "checkonly" ]; then
for id in C01 C03 C05 C06 C08 C10 C11 C13 C15 C16 C17; do confirm $id a; confirm $id b; done
fi
[ "$1" = "confirmonly" ] && { echo CONFIRMDONE; exit 0; }
git -C /repo worktree add -q --detach /tmp/wtm HEAD 2>/dev/null
check r5-C13-a C13
check r5-C13-b C13
check r5-C15-a C15
check r5-C15-b C15
check r5-C16-a C16
check r5-C16-b C16
check r5-C03-a C03
check r5-C03-b C03
check r5-C05-a C05
check r5-C05-b C05
check r5-C08-a C08
check r5-C08-b C08
check r5-C10-a C10
check r5-C10-b C10
check r5-C17-a C17 C02
check r5-C17-b C17
check r5-C11-a C11
check r5-C11-b C11 C04
check r5-C06-a C06
check r5-C06-b C06 C10
check r5-C01-a C01
check r5-C01-b C01
echo ALLDONE
