#!/bin/bash
# exploration run: selected checks in the thorough tier; usage: thorough_some.sh <jobs> <ids...>
J=$1; shift
for p in "$@"; do
  s=$(date +%s); ./check $p --tier thorough --jobs $J > thorough_$p.log 2>&1; rc=$?; e=$(date +%s)
  echo "$p exit=$rc $((e-s))s $(grep -c '^VIOLATION' thorough_$p.log) viol; $(tail -n 1 thorough_$p.log | cut -c1-300)"
  grep '^INCONCLUSIVE\|^VIOLATION' thorough_$p.log | head -3 | cut -c1-400
done
