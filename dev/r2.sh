#!/bin/bash
# confirm round-2 changes in their scratch worktrees, then run the relevant quick checks against each in a scratch worktree (never /repo)
export CARGO_NET_OFFLINE=true
confirm() { # id letter
  local wt=/tmp/mut/r2-$1 L=$2 out=/verif/seeded/r2-$1-$2
  cd $wt; git reset -q; git checkout -q -- .; git clean -fdq src
  export CARGO_TARGET_DIR=$wt/target
  git apply _out/${L}_patch.diff || { echo "r2-$1-$L patch does not apply"; return; }
  r1=$(cargo test --offline 2>&1 | grep -E "^test result" | head -1)
  git apply _out/${L}_demo.diff || { echo "r2-$1-$L demo does not apply"; }
  r2=$(cargo test --offline 2>&1 | grep -E "^test result" | head -1)
  git apply -R _out/${L}_patch.diff
  r3=$(cargo test --offline 2>&1 | grep -E "^test result" | head -1)
  git reset -q; git checkout -q -- .; git clean -fdq src
  mkdir -p $out; cp _out/${L}_patch.diff $out/patch.diff; cp _out/${L}_demo.diff $out/demo.diff
  echo "r2-$1-$L | with change, suite: $r1 | with change + demo: $r2 | demo only: $r3" | tee $out/confirm.txt
  unset CARGO_TARGET_DIR
}
check() { # seeded-dir prop[:only]...
  local d=$1; shift
  cd /tmp/wtm && git reset -q && git checkout -q -- . && git clean -fdq src && git apply /verif/seeded/$d/patch.diff || { echo "MUT $d patch failed"; return; }
  for spec in "$@"; do
    p=${spec%%:*}; only=""; [[ "$spec" == *:* ]] && only="--only ${spec#*:}"
    rm -rf /tmp/outm; mkdir -p /tmp/outm; cp /verif/known_findings.json /tmp/outm/
    ( cd /verif && VERIF_REPO=/tmp/wtm VERIF_OUT=/tmp/outm ./check $p $only > /tmp/r2check_${d}_${p}.log 2>&1 ); rc=$?
    echo "MUT $d $spec exit=$rc violations=$(grep -c '^VIOLATION' /tmp/r2check_${d}_${p}.log) $(grep '^VIOLATION' /tmp/r2check_${d}_${p}.log | head -2 | sed 's/.*# //' | tr '\n' ';' | cut -c1-230)"
    grep '^INCONCLUSIVE' /tmp/r2check_${d}_${p}.log | head -1 | cut -c1-260
  done
}
for id in C01 C02 C03 C06 C07 C09 C11 C17; do confirm $id a; confirm $id b; done
git -C /repo worktree add -q --detach /tmp/wtm HEAD 2>/dev/null
check r2-C17-a C17:ExecuteMatch
check r2-C17-b C17:RejectBidSome,RejectBidNone,ExpireBid,CancelBid
check r2-C07-b C07
check r2-C07-a C07 C10:CreateAsk
check r2-C11-a C11:CreateBid C07
check r2-C11-b C11:CreateAsk C07
check r2-C02-b C07 C08:ExecuteMatch
check r2-C01-a C01:CreateAsk C07
check r2-C06-b C15 C14
check r2-C09-b C15
check r2-C03-a C03
check r2-C03-b C03
check r2-C02-a C02
check r2-C09-a C09:ExecuteMatch C02
check r2-C01-b C12 C01:ExecuteMatch
check r2-C06-a C06:CancelBid,ExpireBid,RejectBidSome
echo ALLDONE
