#!/bin/bash
# exploration run: every check in the thorough tier, sequentially (cwd = a snapshot of /verif); $1 = jobs per check
J=${1:-10}
for p in C02 C09 C17 C03 C16 C06 C04 C08 C12 C05 C07 C11 C10 C13 C14 C15 C01; do
  s=$(date +%s); ./check $p --tier thorough --jobs $J > thorough_$p.log 2>&1; rc=$?; e=$(date +%s)
  echo "$p exit=$rc $((e-s))s $(grep -c '^VIOLATION' thorough_$p.log) viol; $(tail -n 1 thorough_$p.log | cut -c1-300)"
  grep '^INCONCLUSIVE' thorough_$p.log | head -2 | cut -c1-400
done
