import json, os, re
S = '/verif/seeded'
META = {
 'orig-F1': ('C04', ['C01', 'C08'], 'reverse of fix e520144: reverse_ask no longer updates converted_base.amount after a partial reject of an approved convertible ask', 'two steps: partial RejectAsk on a Ready ask, then CancelAsk (approver paid size+c of size escrowed)'),
 'orig-F2': ('C06', [], 'reverse of fix dda6b5e: lot-multiple check applied to the full-remainder default of expire/cancel', 'an order whose remainder was left off the lot grid by an accepted fill (e.g. fill 15 of 20 with increment 10), then CancelBid/ExpireBid/ExpireAsk'),
 'orig-F3': ('C02', ['C01', 'C09'], 'reverse of fix a05ec8a: (None, Some) fee-refund case dropped in execute_match', 'price-improved fill whose own fee rounds to zero while the fee on the bid-price amount does not'),
 'orig-F4': ('C10', [], 'reverse of fix f6552c8: convertible arm sends converted_base.denom with the restricted flag of the convertible denom', 'base and convertible denominations with different marker types (unreachable for the mock querier of the suite)'),
 'orig-F5': ('C10', ['C03'], 'reverse of fix dd95695: add_transfer emits zero-amount transfers', 'ask fee equal to gross proceeds (rate 0.5, gross 1): zero-coin bank send; restricted quote: panic'),
 'm-C01': ('C01', ['C08'], 'approve_ask: size.ne(stored size) weakened to size.gt(stored size): an approver may escrow less than the ask size', 'short approval followed by a match / reject / cancel'),
 'm-C02': ('C02', ['C09', 'C01'], 'BidOrderV3::calculate_fee multiplies the quote ratio by the remaining fee instead of the original fee', 'second fill (or fill after a refund) of a fee-bearing bid'),
 'm-C03': ('C03', ['C02'], 'execute_match refund branch re-tests actual_gross_proceeds.fract() instead of original_gross_proceeds.fract()', 'execution below the bid price with size*bid price fractional (e.g. 3 @ 2 against bid price 2.5)'),
 'm-C04': ('C04', ['C09'], 'reverse_bid computes the fee required for the remainder from get_remaining_fee() instead of the original fee', 'partial RejectBid on a fee-bearing bid that was partly filled/rejected before'),
 'm-C05': ('C05', [], 'reverse_bid owner/executor check restructured so that the owner exemption also covers ExpireBid / RejectBid', 'sender = owner of the bid, not an executor, sends ExpireBid/RejectBid'),
 'm-C06': ('C06', ['C08', 'C04', 'C01'], 'reverse_ask sets converted_base.amount = effective_cancel_size instead of the remaining size', 'partial RejectAsk on a Ready ask followed by the owner cancel: approver gets back too little'),
 'm-C07': ('C07', ['C09'], 'create_bid fee uses Decimal::round() (banker\'s rounding) instead of MidpointAwayFromZero', 'fee on an exact .5 tie with even integer part (rate 0.01, total 250)'),
 'm-C08': ('C08', ['C01'], 'approve_ask: size.ne(stored size) weakened to size.lt(stored size): over-sized approval accepted', 'approve with size and funds above the current ask size; surplus lost after the next fill'),
 'm-C09': ('C09', ['C02'], 'execute_match fee refund computed as calculate_fee(bid_quote_refund): two independent roundings', 'price-improved fill where the two fee shares round differently separately than together (2.6 + 2.6)'),
 'm-C10': ('C10', [], 'execute_match fee refund transfer uses is_base_restricted_marker instead of is_quote_restricted_marker', 'fee-bearing bid, price-improved fill, base and quote with different marker types'),
 'm-C11': ('C11', ['C04', 'C17'], 'reverse_ask removes the ask iff no explicit size was given (instead of iff nothing remains)', 'RejectAsk with an explicit size equal to the whole remainder: zero-size ask stays visible'),
 'm-C12': ('C12', [], 'modify_contract passes ask_fee_info to the bid-side check_fee_rate', 'open bid, ask fee rate different from bid fee rate, requested bid rate numerically equal to the ask rate'),
 'm-C13': ('C13', [], 'instantiate bid-fee arm ("", "") => None widened to (_, "") => None', 'bid fee account given with an empty rate string: accepted, fee silently dropped'),
 'm-C14': ('C14', [], 'require_version strips the pre-release tag before matching', 'stored version 0.16.2-rc.1 (older than the minimum) is migrated'),
 'm-C15': ('C15', ['C14'], 'migrate_bid_orders collects legacy ids with map_while instead of filter_map', 'a current-format bid whose key sorts before a legacy bid: later legacy bids stay unconverted'),
 'm-C16': ('C16', [], 'GetAsk/GetBid fall back to the hyphenated form of the id when the exact key is absent', 'query by a legacy / non-canonical id with no order under it while an order exists under the canonical form'),
 'm-C17': ('C17', [], 'order_open attribute derived from "an explicit size was given" instead of "still on the book"', 'RejectAsk/RejectBid with an explicit size equal to the whole remainder'),
}
for d, (prop, also, what, needs) in META.items():
    p = os.path.join(S, d)
    conf = open(os.path.join(p, 'confirm.txt')).read().strip() if os.path.exists(os.path.join(p, 'confirm.txt')) else None
    m = {'breaks_property': prop, 'also_relevant_to': also, 'change': what, 'needs_to_manifest': needs,
         'source': 'reverse patch of a fix: commit made in this round' if d.startswith('orig') else 'independent sub-agent given only the property text and a scratch worktree',
         'confirmed_by_me': conf or 'orig defect: reproduced natively by the checks before the fix (DESIGN.md 11.5); existing suite passed on the pinned commit (BASELINE.json)',
         'how_to_run': 'git -C /repo apply /verif/seeded/%s/patch.diff && (cd /verif && ./check %s); git -C /repo checkout -- .' % (d, prop),
         'detected_by': []}
    json.dump(m, open(os.path.join(p, 'meta.json'), 'w'), indent=1)
print('ok')
