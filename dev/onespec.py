import sys, json
sys.path.insert(0, '/verif')
from mirsym import runner as R, steps as ST
kind = sys.argv[1]; pid = sys.argv[2]
kw = json.loads(sys.argv[3]) if len(sys.argv) > 3 else {}
opts = json.loads(sys.argv[4]) if len(sys.argv) > 4 else {}
text = open('/verif/.cache/c.mir').read()
R._init_worker(text, 'quick', 0)
spec = ST.default_spec(kind, **kw)
res = R.run_spec(([pid], spec, opts))
print(res['paths'], res['witness'], res['error'])
for m in res['witness_mismatch'][:2]:
    print(json.dumps({k: v for k, v in m.items() if k != 'scenario'})[:600])
    if m['scenario']: print(json.dumps(m['scenario']['steps']), json.dumps(m['scenario']['seed']['contract_info'])[:400])
for v in res['violations'][:3]: print('VIOL', v['signature'], v.get('diffs'))
