"""meta.json for the round-5 seeded changes; detection results are read from a log of dev/r5.sh (lines 'MUT <dir> <check> exit=.. violations=.. <obligations>')"""
import json, os, re, sys
S = '/verif/seeded'
META = {
 'r5-C01-a': ('C01', 'execute_match converts the gross proceeds once and reuses them: the approver of a convertible ask is paid the gross instead of the net', 'ask fee configured and an approved convertible ask: fee + gross paid out of a bid debited gross only'),
 'r5-C01-b': ('C01', 'reverse_bid returns the cancelled quote\'s share of the fee (rounded half down, capped) instead of "remaining fee minus fee still needed"', 'fee-bearing bid, an earlier partial fill/reject, then the rest cancelled with the share on a rounding midpoint: one unit of fee stranded'),
 'r5-C03-a': ('C03', 'execute_match accepts any execution price inside [ask price, bid price] instead of one of the two limit prices', 'crossed book with a strict spread and a price strictly between the limits'),
 'r5-C03-b': ('C03', 'execute_match refuses an approved convertible ask whose approver is no longer in the approver list', 'approve, then a migration replaces the approver list, then an eligible match is refused'),
 'r5-C05-a': ('C05', 'role checks answered from keyed lookup maps written by set_contract_info and never cleared', 'an executor/approver dropped by ModifyContract (or migrate) keeps the role: needs a configuration change followed by a privileged request'),
 'r5-C05-b': ('C05', 'reverse_ask lets a configured approver reject a pending convertible ask', 'RejectAsk from an approver (not an executor) on a convertible ask still awaiting approval'),
 'r5-C06-a': ('C06', 'BidOrderV3::calculate_reverse_fee: fee returned = floor(fee * cancelled_quote / quote) capped at the remainder', 'fee-bearing bid after a rounded partial fill/reject: the final cancel returns too little fee or strands it'),
 'r5-C06-b': ('C06', 'cancel_ask / reverse_ask consolidated into release_ask_escrow, which reuses the ask base\'s marker flag for the approver\'s converted-base transfer', 'approved convertible ask where exactly one of the convertible denomination and the contract base is a restricted marker'),
 'r5-C08-a': ('C08', 'AskOrderV1::approval() returns clones: reverse_ask updates a copy of converted_base', 'partial reject of an approved convertible ask: record keeps the old approver amount, later cancel over-refunds'),
 'r5-C08-b': ('C08', 'approve_ask accepts a repeated approval from the approver who already approved ("safe retry")', 'second ApproveAsk by the same approver: funds taken again, record unchanged'),
 'r5-C10-a': ('C10', 'fee payouts grouped per account: one BankMsg::Send carrying a list of fee coins', 'ask and bid fee to the same account, both non-zero, unrestricted quote: a bank send of two coins'),
 'r5-C10-b': ('C10', 'migration that clears the bid fee refunds the escrowed fee of open bids by a raw BankMsg::Send', 'open fee-bearing bid with a restricted quote marker, then migrate with bid fee ("","")'),
 'r5-C11-a': ('C11', 'execute_match books the net proceeds (gross minus ask fee) as the quote the bid spent', 'ask fee configured and the bid stays on the book after the match: unspent quote != price * unfilled size'),
 'r5-C11-b': ('C11', 'reverse_bid computes a partial reject\'s quote as quote * (size / base) truncated', 'partial RejectBid whose size / original size is a non-terminating decimal (100 of 300): one unit of quote left behind'),
 'r5-C13-a': ('C13', 'InstantiateMsg fee pair validation folded into a helper that treats Some("") as absent', 'half-supplied fee pair such as (rate Some(""), account None): accepted, stored as "no fee"'),
 'r5-C13-b': ('C13', 'size_increment check moved into validate() without the "< 1" clause', 'size_increment = 0 accepted at any precision'),
 'r5-C15-a': ('C15', 'BidOrderV2 sums merged into one event_totals() walk whose Reject arm drops the fee', 'legacy bid with a fee-carrying Reject event: converted bid has too much fee remaining'),
 'r5-C15-b': ('C15', 'migrate_bid_orders rewrites a legacy bid\'s id and key to the canonical hyphenated uuid', 'legacy bid stored under a non-canonical uuid spelling: lost under its own id, may collide with another bid'),
 'r5-C16-a': ('C16', 'GetVersionInfo answers from VersionInfoV1::current() (compile-time constants) instead of storage', 'stored version differs from the code version (before migrate) or nothing stored'),
 'r5-C16-b': ('C16', 'is_whole_order_reversal helper compares a bid\'s cancel size with its ORIGINAL size', 'partially filled/rejected bid rejected with an explicit size equal to its remainder: stays on the book with zero remaining and is still reported by GetBid'),
 'r5-C17-a': ('C17', 'fee payouts collected in a BTreeMap<Addr, u128> with insert: the bid fee overwrites the ask fee for a shared fee account', 'ask and bid fee account equal, both fees non-zero: ask_fee reported and deducted but never paid'),
 'r5-C17-b': ('C17', 'load_ask_order / load_bid_order fall back to the hyphenated uuid; the id attribute echoes the id as sent', 'cancel / expire / reject sent with another spelling of the id of an order on the book: attribute names an id that is not on the book'),
}
det = {}
for fn in sys.argv[1:]:
    for line in open(fn):
        m = re.match(r'^MUT (\S+) (\S+) exit=(\d+) violations=(\d+) ?(.*)$', line.strip())
        if m:
            d, chk, rc, nv, obs = m.groups()
            p, _, only = chk.partition(':')
            det.setdefault(d, {})[chk] = {'check': './check %s%s' % (p, (' --only ' + only) if only else ''), 'exit': int(rc), 'violations': int(nv),
                                           'first_obligations': [o.strip()[:120] for o in obs.split(';') if o.strip()][:2]}
for d, (prop, what, needs) in META.items():
    p = os.path.join(S, d)
    conf = open(os.path.join(p, 'confirm.txt')).read().strip()
    m = {'breaks_property': prop, 'change': what, 'needs_to_manifest': needs,
         'source': 'fifth-round independent sub-agent (property text and a scratch worktree only), asked for interaction bugs: a second operation after a first one, or a specific combination of configuration and order',
         'confirmed_by_me': conf, 'how_to_run': 'scratch worktree + VERIF_REPO=<worktree> VERIF_OUT=<dir> ./check %s' % prop,
         'detected_by': list(det.get(d, {}).values())}
    json.dump(m, open(os.path.join(p, 'meta.json'), 'w'), indent=1)
print('ok', len(META))
