#!/bin/bash
# run every registered quick (or $1=thorough) check on /repo as it is; summary in /tmp/runall.log
tier=${1:-quick}
cd /verif; : > /tmp/runall.log
for p in C04 C05 C06 C07 C08 C12 C13 C14 C15 C16 C10 C11 C17 C03 C09 C02 C01; do
  s=$(date +%s); ./check $p --tier $tier > /tmp/runall_$p.log 2>&1; rc=$?; e=$(date +%s)
  echo "$p exit=$rc $((e-s))s $(grep -c '^VIOLATION' /tmp/runall_$p.log) violations; $(grep '^INCONCLUSIVE' /tmp/runall_$p.log | head -1 | cut -c1-200)" >> /tmp/runall.log
done
echo DONE >> /tmp/runall.log
