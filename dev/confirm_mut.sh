#!/bin/bash
# confirm a sub-agent's change in its scratch worktree: suite passes with it, demo fails with it, demo passes without it
id=$1; wt=/tmp/mut/$id; out=/verif/seeded/m-$id
cd $wt || exit 9
cp _out/patch.diff /tmp/patch_$id.diff; cp _out/demo.diff /tmp/demo_$id.diff
git reset -q; git checkout -q -- . ; git clean -fdq src
export CARGO_TARGET_DIR=$wt/target CARGO_NET_OFFLINE=true
git apply /tmp/patch_$id.diff || { echo "$id: patch does not apply"; exit 1; }
r1=$(cargo test --offline 2>&1 | grep -E "^test result" | head -1)
git apply /tmp/demo_$id.diff || { echo "$id: demo does not apply"; exit 1; }
r2=$(cargo test --offline 2>&1 | grep -E "^test result" | head -1)
git apply -R /tmp/patch_$id.diff
r3=$(cargo test --offline 2>&1 | grep -E "^test result" | head -1)
git reset -q; git checkout -q -- . ; git clean -fdq src
mkdir -p $out; cp /tmp/patch_$id.diff $out/patch.diff; cp /tmp/demo_$id.diff $out/demo.diff
echo "$id | with change, suite: $r1 | with change + demo: $r2 | demo only: $r3" | tee $out/confirm.txt
