#!/bin/bash
# usage: mutcheck.sh <patch.diff> <label> <PROP[:only-kinds]>...   applies the patch to /repo, runs the checks, always reverts
patch=$1; label=$2; shift 2
cd /repo || exit 9
git diff --quiet || { echo "/repo not clean"; exit 9; }
git apply "$patch" || { echo "patch does not apply"; exit 9; }
trap 'git -C /repo checkout -- . ; git -C /repo clean -fdq src' EXIT
for spec in "$@"; do
  p=${spec%%:*}; only=""
  if [[ "$spec" == *:* ]]; then only="--only ${spec#*:}"; fi
  out=/tmp/mutcheck_${label}_${p}.log
  ( cd /verif && ./check $p $only > $out 2>&1 ); rc=$?
  nv=$(grep -c '^VIOLATION' $out)
  echo "MUT $label $spec exit=$rc violations=$nv $(grep '^VIOLATION' $out | head -2 | sed 's/.*# //' | tr '\n' ';' | cut -c1-220)"
  grep '^INCONCLUSIVE' $out | head -2 | cut -c1-300
done
