import sys, time, collections, traceback
sys.path.insert(0, '/verif')
import z3
from mirsym import engine as E, models as M, world as W
from mirsym.engine import Adt, U, some, NONE

text = open('/verif/.cache/c.mir').read()
eng = E.Engine(text, '/repo', M.MODELS)
ti = eng.ti
b = W.Bounds('quick')

def reqs(sc):
    S = sc.s; I = sc.i
    rid = S('req.id')
    out = {}
    out['CancelAsk'] = ti.mk('ExecuteMsg', 'CancelAsk', id=rid)
    out['CancelBid'] = ti.mk('ExecuteMsg', 'CancelBid', id=rid)
    out['ExpireAsk'] = ti.mk('ExecuteMsg', 'ExpireAsk', id=rid)
    out['ExpireBid'] = ti.mk('ExecuteMsg', 'ExpireBid', id=rid)
    out['RejectAskNone'] = ti.mk('ExecuteMsg', 'RejectAsk', id=rid, size=NONE())
    out['RejectAskSome'] = ti.mk('ExecuteMsg', 'RejectAsk', id=rid, size=some(U(I('req.size', 0, b.B))))
    out['RejectBidNone'] = ti.mk('ExecuteMsg', 'RejectBid', id=rid, size=NONE())
    out['RejectBidSome'] = ti.mk('ExecuteMsg', 'RejectBid', id=rid, size=some(U(I('req.size', 0, b.B))))
    out['ApproveAsk'] = ti.mk('ExecuteMsg', 'ApproveAsk', id=rid, base=S('req.base'), size=U(I('req.size', 0, b.B)))
    ps, _, _ = sc.free_decimal_string('req.price')
    out['CreateAsk'] = ti.mk('ExecuteMsg', 'CreateAsk', id=rid, base=S('req.base'), quote=S('req.quote'), price=ps, size=U(I('req.size', 0, b.B)))
    out['CreateBidNoFee'] = ti.mk('ExecuteMsg', 'CreateBid', id=rid, base=S('req.base'), fee=NONE(), price=ps, quote=S('req.quote'), quote_size=U(I('req.quote_size', 0, b.B)), size=U(I('req.size', 0, b.B)))
    out['ExecuteMatch'] = ti.mk('ExecuteMsg', 'ExecuteMatch', ask_id=S('req.ask_id'), bid_id=S('req.bid_id'), price=ps, size=U(I('req.size', 0, b.B)))
    out['ModifyNone'] = ti.mk('ExecuteMsg', 'ModifyContract', approvers=NONE(), executors=NONE(), ask_fee_rate=NONE(), ask_fee_account=NONE(), bid_fee_rate=NONE(), bid_fee_account=NONE(), ask_required_attributes=NONE(), bid_required_attributes=NONE())
    return out

only = sys.argv[1:] 
for kind in ['CancelAsk','CancelBid','ExpireAsk','ExpireBid','RejectAskNone','RejectAskSome','RejectBidNone','RejectBidSome','ApproveAsk','CreateAsk','CreateBidNoFee','ExecuteMatch','ModifyNone']:
    if only and kind not in only: continue
    sc = W.Scenario(eng, b)
    sc.make_cfg(ask_fee=True, bid_fee=True, n_ask_attr=1)
    sc.add_ask('Ready'); sc.add_bid(True); sc.abstract_rest(); sc.set_attrs(1)
    msg = reqs(sc)[kind]
    t0 = time.time(); cnt = collections.Counter()
    try:
        for fin in sc.execute(msg, nfunds=0 if 'Create' not in kind else 1):
            p = W.Path(fin)
            cnt[(p.kind, p.detail if p.kind != 'ok' else (len(p.messages), tuple(w[0]+':'+w[1] for w in p.writes())))] += 1
    except Exception as e:
        traceback.print_exc()
    print('==', kind, '%.1fs' % (time.time()-t0), 'checks', eng.nchecks, 'unknown', eng.nunknown)
    for k, v in sorted(cnt.items(), key=str): print('   ', v, k)
