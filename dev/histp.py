import sys, json, os
sys.path.insert(0, os.environ.get('MIRSYM_ROOT', '/verif'))
from mirsym import runner as R, steps as ST
tier = os.environ.get('VERIF_TIER', 'quick')
R._init_worker(open(os.environ.get('MIRFILE', '/verif/.cache/c.mir')).read(), tier, 0)
pid = sys.argv[1]
T = ST.history_templates(tier, pid)
lo, hi = (int(sys.argv[2]), int(sys.argv[3])) if len(sys.argv) > 3 else (0, len(T))
for h in T[lo:hi]:
    res = R.run_history_job(([pid], h, {}))
    print(h['name'], res['paths'], res['obligations'], res['witness'], '%.1fs' % res['wall_s'], res['error'])
    for m in res['witness_mismatch'][:1]: print(json.dumps(m['diffs'])[:1500]); 
    for v in res['violations'][:3]: print('VIOL', v['signature'], v.get('diffs'), v.get('reproduced'))
    for u in res['unknown'][:3]: print('UNKNOWN', u)
