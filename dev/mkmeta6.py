"""meta.json for the round-6 seeded changes (same procedure as mkmeta5.py)"""
import json, os, re, sys
S = '/verif/seeded'
META = {
 'r6-C02-a': ('C02', 'BidOrderV2 sums folded into one settled_totals() whose Reject arm forgets the returned fee', 'fee-bearing LEGACY bid partially rejected before the upgrade, then migrate, then a match: the bid-fee account is overpaid (a conversion defect: C15 territory)'),
 'r6-C02-b': ('C02', 'execute_match skips the ask-fee transfer and its deduction when the ask-fee account equals the ask owner', 'approved convertible ask owned by the fee account: the approver receives the gross, the fee account nothing'),
 'r6-C04-a': ('C04', 'BidOrderV2 event sums folded into one pass that leaves Reject fees out of accumulated_fee', 'fee-bearing LEGACY bid partially rejected before the upgrade, then migrate, then cancel / reject: more fee returned than is escrowed (a conversion defect: C15 territory)'),
 'r6-C04-b': ('C04', 'refund code of cancel_ask / reverse_ask consolidated into one helper that pays the approver the whole converted_base.amount', 'partial RejectAsk of an approved convertible ask: approver gets all its base back, and again at the later expire'),
 'r6-C07-a': ('C07', 'create_ask / create_bid made idempotent: an identical request under an id already on the book returns the normal "created" response', 'a create after an identical, untouched create: accepted under a taken id, its funds escrowed with no order accounting for them'),
 'r6-C07-b': ('C07', 'fee arithmetic pulled into calculate_fee_size() -> Option: a stated fee is no longer rejected when no fee is due', 'no bid fee configured (or fee rounds to 0) and the bid states fee Some(n > 0) funded with total + n: recorded with a fee not at the configured rate'),
 'r6-C09-a': ('C09', 'BidOrderV3::calculate_fill_fee: a fill that takes the last of the bid\'s base pays ALL of the fee still escrowed', 'fee-bearing bid closed at an ask price below the bid price: fee account gets the whole remaining fee, refund 0'),
 'r6-C09-b': ('C09', 'AskOrderV1::calculate_fee(rate, size) uses the ask\'s own limit price', 'ask fee configured, ask price below bid price, executed at the bid price: fee charged on ask_price*size'),
 'r6-C12-a': ('C12', 'modify_contract reads the order books lazily, approvers counted as ask-side only', 'bids-only book and an approvers-only request: a current approver is dropped while a bid is open'),
 'r6-C12-b': ('C12', 'check_fee_rate returns Ok for a non-numeric new rate, leaving it to modify_contract_info', 'fee configured, order open on that side, the ("","") clear pair: the fee is removed instead of the request being refused'),
 'r6-C14-a': ('C14', 'migrate_contract_info returns early when the message "carries no overrides", counting list overrides only when non-empty', 'a lone Some(vec![]) override (clear approvers / a required-attribute list) is silently ignored'),
 'r6-C14-b': ('C14', 'migrate reuses ModifyContract\'s "approvers cannot be dropped while orders are open" rule', 'open order and an approver override that is not a superset: a supported migration is refused'),
}
det = {}
for fn in sys.argv[1:]:
    for line in open(fn):
        m = re.match(r'^MUT (\S+) (\S+) exit=(\d+) violations=(\d+) ?(.*)$', line.strip())
        if m:
            d, chk, rc, nv, obs = m.groups()
            p, _, only = chk.partition(':')
            det.setdefault(d, {})[chk] = {'check': './check %s%s' % (p, (' --only ' + only) if only else ''), 'exit': int(rc), 'violations': int(nv),
                                           'first_obligations': [o.strip()[:120] for o in obs.split(';') if o.strip()][:2]}
for d, (prop, what, needs) in META.items():
    p = os.path.join(S, d)
    conf = open(os.path.join(p, 'confirm.txt')).read().strip()
    m = {'breaks_property': prop, 'change': what, 'needs_to_manifest': needs,
         'source': 'sixth-round independent sub-agent (property text and a scratch worktree only), interaction bugs for the six properties not covered by round 5',
         'confirmed_by_me': conf, 'how_to_run': 'scratch worktree + VERIF_REPO=<worktree> VERIF_OUT=<dir> ./check %s' % prop,
         'detected_by': list(det.get(d, {}).values())}
    json.dump(m, open(os.path.join(p, 'meta.json'), 'w'), indent=1)
print('ok', len(META))
