import json
props = {l['id']: l for l in map(json.loads, open('/verif/properties.jsonl'))}
TEXT = {
 'C01': ('local ledger equation of one real request from an arbitrary Inv book (induction step of escrow solvency) per denomination, re-establishment of Inv by every request kind, and - independent of Inv - bounded model checking of the global ledger along accepted-request histories from the empty store (symbolic instantiate + up to 5 symbolic requests)', '5.1, 11.3, 11.6'),
 'C02': ('net payout per (account, denomination) of every accepted match equals the specification of the statement; remaining amounts fall by exactly those quantities', '7 C02'),
 'C03': ('an accepted match satisfies the eligibility conjunction and the limit prices; an eligible executor request is never refused (converse decided as unsatisfiability of refusal paths under the legality predicate)', '7 C03'),
 'C04': ('payouts of cancel/expire/reject equal the cancelled part and go to the depositor only; remainders shrink by what was returned; partial sizes are positive lot multiples within the remainder', '7 C04'),
 'C05': ('on every accepting path of every request kind (configuration changes included) the sender holds the required role in the pre-state (owner / executor / approver); and along role histories from the empty store (role lists replaced by accepted configuration changes first) every accepted privileged request was sent by a holder of the role as stored just before it', '7 C05, 11.12'),
 'C06': ('for every open order of an Inv book the owner cancel and the executor expire have no feasible refusing path and return the whole escrow; Inv is re-established by every request kind; and, composed, after any accepted request the exits of every remaining order are decided again from the post-state', '7 C06, 11.6'),
 'C07': ('an order is recorded only if well-formed and exactly funded, the recorded order reproduces the request, and every admissible request is accepted (both directions)', '7 C07'),
 'C08': ('approval only of pending asks by approvers with exact escrow; the Ready clause of Inv (approver amount = remaining size) is re-established by every operation; pending asks never match', '7 C08'),
 'C09': ('bid fee at entry = half-up(rate x total); ask fee on match = half-up(rate x gross); the pro-rata clause of Inv_bid is re-established by every operation on a fee-bearing bid', '7 C09'),
 'C10': ('every emitted message is a one-coin positive bank send for an unrestricted denomination or a positive marker transfer administered by the contract for a restricted one, with the right source; on every response of execute, migrate, instantiate', '7 C10, 11.12'),
 'C11': ('write-set of every request is within the keys it names; immutable terms, monotone remainders, internal consistency; neighbours, configuration and version record untouched (books with two asks and two bids)', '7 C11'),
 'C12': ('ModifyContract: rate/attribute freeze per non-empty side, approver superset rule, field-wise installation, immutable market parameters, executor-only', '7 C12'),
 'C13': ('instantiate accepts exactly the coherent messages (both directions), stores the request and the package version; integrality corollary as pure arithmetic obligations', '7 C13'),
 'C14': ('migrate: version gate, asks untouched, exactly the requested overrides, version stamp, second identical migration is a no-op (composed step), supported migrations are carried out', '7 C14'),
 'C15': ('legacy bids (event logs up to the bound, store iterated in every key order) are converted inside the version window with accumulators equal to the event sums and all other fields equal; nothing else is rewritten, lost or invented; thorough tier adds a Kani/CBMC harness on the compiled conversion', '7 C15, 11.6'),
 'C16': ('queries leave the store unchanged; order queries return exactly the stored entry under that id and fail otherwise; info queries return the stored records; no order with zero remaining is ever answered (queries after reached histories)', '7 C16, 11.12'),
 'C17': ('action and id attributes name the request; reverse_size / order_open / match size, price, ask_fee, bid_fee / recorded price and size equal what the path actually did, and the reported fees are what the fee accounts were paid', '7 C17, 11.12'),
}
REACHED = ('C01', 'C02', 'C03', 'C04', 'C05', 'C06', 'C07', 'C08', 'C09', 'C11', 'C12', 'C16', 'C17')
checks = []
for pid in sorted(props):
    what, ref = TEXT[pid]
    checks.append({
        'property_id': pid,
        'quick_cmd': './check %s --tier quick' % pid,
        'thorough_cmd': './check %s --tier thorough' % pid,
        'evidence_file': '/verif/evidence/%s.json' % pid,
        'replay_cmd_template': './check %s --replay {path}' % pid,
        'engine': 'mirsym',
        'level_claimed': {'category': 'model_checking',
                          'text': 'Bounded symbolic model checking of the real code: the MIR of the contract (regenerated from /repo on every run) is executed symbolically from an arbitrary pre-state satisfying the representation invariant; %s. Each obligation is an exact z3 query per feasible path: unsat = holds for every value inside the stated bounds, sat = concrete counterexample replayed on the compiled contract before it is reported. One inductive step covers histories of any length.' % what,
                          'design_ref': 'DESIGN.md ' + ref},
        'level_note': 'Trusted: rustc MIR semantics as implemented by mirsym (validated on every run by replaying sampled path witnesses on the compiled contract), the library models of DESIGN.md 3 (rust_decimal, cosmwasm_std, cw-storage-plus, provwasm queriers, uuid, semver), z3 5.1. Bounds: amounts and decimal values < 10^9 (quick) / 10^12 (thorough), <= 3 / 6 fractional digits, fee rates in [0,1], list lengths <= 2-3; behaviour beyond them (96-bit / u128 overflow refusals) is not claimed. Pre-states range over Inv (DESIGN.md 5.1, 11.3); a counterexample is reported only after the compiled contract reproduced it from the seeded pre-state (reached-state histories: replayed from the empty store, every step). Exit 2 = inconclusive (solver unknown, unmodelled callee, witness replay disagreeing), never a pass.',
        'technique': 'SMT-based symbolic execution of the real code: rustc MIR regenerated from /repo on every run is executed symbolically (engine mirsym, z3 5.1; pruning on a linear abstraction, one exact query per obligation per path, cvc5 re-decides a sample), counterexamples and sampled path witnesses replayed on the compiled contract'
                     + ('; the same obligations decided again on states reached from the empty store by bounded symbolic histories (instantiate + accepted requests along templates)' if pid in REACHED else '')
                     + ('; Kani/CBMC second opinion on the compiled conversion in the thorough tier' if pid == 'C15' else '')
                     + ('; Kani/CBMC second opinion on the compiled accumulator update in the thorough tier' if pid == 'C11' else ''),
    })
m = {
 'version': 1,
 'setup_cmd': 'bash /verif/setup.sh',
 'hooks': {'guard': 'ats_verif', 'enable': 'none needed: the four entry points are pub and private functions are read from MIR; no source hooks exist', 'baseline_off_cmd': 'cd /repo && cargo test --workspace --no-fail-fast --offline', 'source_commits': [], 'add_only': True},
 'engines': [{'name': 'mirsym', 'path': '/verif/mirsym', 'serves_properties': sorted(props), 'kind_free_text': 'symbolic executor for rustc MIR text with z3 (linear-abstraction pruning tier, exact deciding tier), library models, native replay binary /verif/replay'}],
 'checks': checks,
 'notes': 'exit 0 = held on everything explored; exit 1 + VIOLATION line = counterexample reproduced on the compiled contract; exit 2 = inconclusive (solver unknown, unsupported MIR construct, witness replay disagreeing with the compiled code) - never reported as success. Five genuine defects found by these checks were repaired in /repo with fix: commits (known_findings.json, DESIGN.md 5.4).',
 'not_applicable': [],
}
json.dump(m, open('/verif/MANIFEST.json', 'w'), indent=1)
