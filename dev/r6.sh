#!/bin/bash
# confirm round-5 changes in their scratch worktrees, then run the relevant quick checks against each in a scratch worktree (never /repo)
export CARGO_NET_OFFLINE=true
confirm() { # id letter
  local wt=/tmp/mut/r6-$1 L=$2 out=/verif/seeded/r6-$1-$2
  cd $wt; git reset -q; git checkout -q -- .; git clean -fdq src
  export CARGO_TARGET_DIR=$wt/target
  git apply _out/${L}_patch.diff || { echo "r6-$1-$L patch does not apply"; return; }
  r1=$(cargo test --offline 2>&1 | grep -E "^test result" | head -1)
  git apply _out/${L}_demo.diff || { echo "r6-$1-$L demo does not apply"; }
  r2=$(cargo test --offline 2>&1 | grep -E "^test result" | head -1)
  git apply -R _out/${L}_patch.diff
  r3=$(cargo test --offline 2>&1 | grep -E "^test result" | head -1)
  git reset -q; git checkout -q -- .; git clean -fdq src
  mkdir -p $out; cp _out/${L}_patch.diff $out/patch.diff; cp _out/${L}_demo.diff $out/demo.diff
  echo "r6-$1-$L | with change, suite: $r1 | with change + demo: $r2 | demo only: $r3" | tee $out/confirm.txt
  unset CARGO_TARGET_DIR
}
check() { # seeded-dir prop[:only]...
  local d=$1; shift
  cd /tmp/wtm && git reset -q && git checkout -q -- . && git clean -fdq src && git apply /verif/seeded/$d/patch.diff || { echo "MUT $d patch failed"; return; }
  for spec in "$@"; do
    p=${spec%%:*}; only=""; [[ "$spec" == *:* ]] && only="--only ${spec#*:}"
    rm -rf /tmp/outm; mkdir -p /tmp/outm; cp /verif/known_findings.json /tmp/outm/
    ( cd /verif && VERIF_REPO=/tmp/wtm VERIF_OUT=/tmp/outm ./check $p $only --jobs ${JOBS:-16} > /tmp/r6check_${d}_${p}.log 2>&1 ); rc=$?
    echo "MUT $d $spec exit=$rc violations=$(grep -c '^VIOLATION' /tmp/r6check_${d}_${p}.log) $(grep '^VIOLATION' /tmp/r6check_${d}_${p}.log | head -2 | sed 's/.*# //' | tr '\n' ';' | cut -c1-230)"
    grep '^INCONCLUSIVE' /tmp/r6check_${d}_${p}.log | head -1 | cut -c1-260
  done
}
if [ "$1" != "checkonly" ]; then
for id in C02 C04 C07 C09 C12 C14; do confirm $id a; confirm $id b; done
fi
[ "$1" = "confirmonly" ] && { echo CONFIRMDONE; exit 0; }
git -C /repo worktree add -q --detach /tmp/wtm HEAD 2>/dev/null
check r6-C14-a C14
check r6-C14-b C14
check r6-C12-a C12
check r6-C12-b C12
check r6-C07-a C07
check r6-C07-b C07
check r6-C04-a C04
check r6-C04-b C04
check r6-C09-a C09
check r6-C09-b C09
check r6-C02-a C02
check r6-C02-b C02
echo ALLDONE
