import sys
sys.path.insert(0,'/verif')
exec(open('/verif/dev/witness.py').read().split("dec = H.Decider")[0])
sc = W.Scenario(eng, b); sc.make_cfg(ask_fee=True, bid_fee=True, n_ask_attr=1); sc.add_ask('Ready'); sc.add_bid(True); sc.abstract_rest(); sc.set_attrs(1)
msg = reqs(sc)['CreateAsk']
paths = [W.Path(f) for f in sc.execute(msg, nfunds=1)]
env = H.env_assumptions(sc); nice = H.nice_constraints(sc)
for p in paths:
    s = z3.Solver(); s.add(*p.pc); s.add(*env)
    if s.check() != z3.sat: continue
    ps = [z3.Bool('n%d'%i) for i in range(len(nice))]
    for a,c in zip(ps,nice): s.add(z3.Implies(a,c))
    if s.check(*ps) == z3.unsat:
        core = s.unsat_core()
        print(p.kind, p.detail, [nice[int(str(c)[1:])] for c in core][:5]); break
