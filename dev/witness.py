import sys, time, collections, traceback, json
sys.path.insert(0, '/verif')
import z3
from mirsym import engine as E, models as M, world as W, harness as H
from mirsym.engine import Adt, U, some, NONE, Coin
exec(open('/verif/dev/smoke.py').read().split("only = sys.argv")[0].split("text = open")[0])
text = open('/verif/.cache/c.mir').read()
eng = E.Engine(text, '/repo', M.MODELS)
ti = eng.ti
b = W.Bounds('quick')
exec("def reqs(sc):" + open('/verif/dev/smoke.py').read().split("def reqs(sc):")[1].split("only = sys.argv")[0])
dec = H.Decider(timeout_ms=10000)
kinds = sys.argv[1:] or ['CancelAsk','CancelBid','ExpireAsk','ExpireBid','RejectAskNone','RejectAskSome','RejectBidNone','RejectBidSome','ApproveAsk','CreateAsk','CreateBidNoFee','ModifyNone']
for kind in kinds:
  for cls in ('Ready','Basic','Pending'):
    sc = W.Scenario(eng, b)
    sc.make_cfg(ask_fee=True, bid_fee=True, n_ask_attr=1)
    sc.add_ask(cls); sc.add_bid(True); sc.abstract_rest(); sc.set_attrs(1)
    msg = reqs(sc)[kind]
    nf = 1 if kind in ('CreateAsk','CreateBidNoFee','ApproveAsk') else 0
    t0 = time.time(); cnt = collections.Counter()
    paths = [W.Path(f) for f in sc.execute(msg, nfunds=nf)]
    env = H.env_assumptions(sc); nice = H.nice_constraints(sc)
    for p in paths:
        if p.kind == 'oob': cnt['oob'] += 1; continue
        r, m = dec.feasible(p.pc, env + nice + H.no_tie_constraints(p.world))
        if r == 'unsat':
            r, m = dec.feasible(p.pc, env)
            if r == 'unsat': cnt['infeasible_exact:' + p.kind] += 1; continue
            cnt['nice-unsat'] += 1
        if r != 'sat': cnt['unknown'] += 1; continue
        step = {'kind': 'execute', 'sender': sc.sym['req.sender'], 'funds': sc.funds, 'msg': msg}
        try:
            scen, c = H.build_replay(sc, m, step, eng)
            nat = H.run_replay(scen)['steps'][0]
            pred = H.predicted_result(p, c, eng)
            post = H.storage_json(p.world if p.kind == 'ok' else sc.world, c, eng)
            d = H.compare_replay(pred, post, nat)
        except Exception as e:
            traceback.print_exc(); d = ['EXC ' + repr(e)]
        if d:
            cnt['MISMATCH'] += 1
            if cnt['MISMATCH'] <= 2:
                print('  MISMATCH', kind, cls, p.kind, p.detail); [print('     ', x[:600]) for x in d]
                json.dump(scen, open('/tmp/mismatch_%s_%s.json' % (kind, cls), 'w'), indent=1)
        else:
            cnt['match:' + p.kind] += 1
    print('==', kind, cls, '%.1fs' % (time.time()-t0), dict(cnt))
print('decider', dec.n, '%.1fs' % dec.t, dec.stats)
