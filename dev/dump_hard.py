import sys, time, collections
sys.path.insert(0, '/verif')
import z3
from mirsym import engine as E, models as M, world as W, harness as H, steps as ST, props as P
text = open('/verif/.cache/c.mir').read()
eng = E.Engine(text, '/repo', M.MODELS)
b = W.Bounds('quick')
spec = ST.default_spec('ExecuteMatch', ask='Basic')
sc, req = ST.build(eng, b, spec)
paths = list(ST.run(sc, req))
dec = H.Decider(timeout_ms=5000)
env = H.env_assumptions(sc)
n=0
for p in paths:
    if p.kind != 'ok': continue
    r, _ = dec.check(list(p.pc) + env, 'feas')
    if r == 'unknown':
        s = z3.Solver(); s.add(*dec.axioms()); s.add(*p.pc); s.add(*env)
        open('/tmp/hard%d.smt2' % n, 'w').write('(set-logic ALL)\n' + s.to_smt2())
        print('dumped', n, len(p.pc), [str(w[0]+':'+w[1]) for w in p.writes()], len(p.messages))
        n += 1
        if n >= 3: break
for p in paths:
    if p.kind != 'ok': continue
    r, _ = dec.check(list(p.pc) + env, 'feas')
    if r == 'unknown':
        for c in p.pc: print('  ', str(z3.simplify(c)).replace('\n',' ')[:400])
        break
