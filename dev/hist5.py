import sys, json
sys.path.insert(0, '/verif')
from mirsym import runner as R, steps as ST
import os
R._init_worker(open(os.environ.get('MIRFILE', '/verif/.cache/c.mir')).read(), 'quick', 0)
T = ST.history_templates('quick', 'C05')
for h in T[int(sys.argv[1]):int(sys.argv[2])]:
    res = R.run_history_job((['C05'], h, {}))
    print(h['name'], res['paths'], res['obligations'], res['witness'], '%.1fs' % res['wall_s'], res['error'])
    for m in res['witness_mismatch'][:1]: print(json.dumps(m['diffs'])[:1500]); 
    for v in res['violations'][:2]: print('VIOL', v['signature'], v.get('diffs'), v.get('reproduced'))
