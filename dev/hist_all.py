"""dev: every reached-state / history template of every property in one tier, in parallel; prints anything that is not a clean pass"""
import sys, json, os, multiprocessing as mp
sys.path.insert(0, '/verif')
tier = os.environ.get('VERIF_TIER', 'thorough')

def init():
    from mirsym import runner as R
    R._init_worker(open(os.environ.get('MIRFILE', '/verif/.cache/c.mir')).read(), tier, int(os.environ.get('VERIF_SEED', '0')))

def run(job):
    from mirsym import runner as R
    pid, h = job
    opts = {'timeout_ms': 120000} if tier == 'thorough' else {}
    res = R.run_history_job(([pid], h, opts))
    bad = {k: v for k, v in res['obligations'].items() if not k.endswith('|unsat')}
    return pid, h['name'], res['paths'], bad, res['witness'], round(res['wall_s']), (res['error'] or '')[-300:], [v['signature'] for v in res['violations']][:2]

if __name__ == '__main__':
    from mirsym import steps as ST
    pids = sys.argv[1:] or ['C02', 'C03', 'C04', 'C05', 'C06', 'C07', 'C08', 'C09', 'C11', 'C12', 'C16', 'C17', 'C01']
    jobs = [(p, h) for p in pids for h in ST.history_templates(tier, p)]
    print(len(jobs), 'templates', flush=True)
    with mp.Pool(int(os.environ.get('JOBS', '16')), initializer=init) as pool:
        for pid, name, paths, bad, wit, wall, err, viol in pool.imap_unordered(run, jobs):
            flag = 'OK ' if not bad and not err and not wit.get('mismatch') else 'BAD'
            print(flag, pid, name[:70], paths, bad, wit, '%ds' % wall, err, viol, flush=True)
    print('ALLDONE')
