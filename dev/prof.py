import sys, time, collections
sys.path.insert(0, '/verif')
import z3
from mirsym import engine as E, models as M, world as W, harness as H, steps as ST, props as P
text = open('/verif/.cache/c.mir').read()
eng = E.Engine(text, '/repo', M.MODELS)
b = W.Bounds('quick')
spec = ST.default_spec('ExecuteMatch', ask=sys.argv[1], bidfee=sys.argv[2] == '1', cfg_ask_fee=sys.argv[3] == '1', cfg_bid_fee=sys.argv[2] == '1')
pid = sys.argv[4]
sc, req = ST.build(eng, b, spec)
t0 = time.time()
paths = list(ST.run(sc, req))
print('explore %.1fs paths %d checks %d' % (time.time() - t0, len(paths), eng.nchecks))
print(collections.Counter(p.kind for p in paths))
dec = H.Decider(timeout_ms=20000)
env = H.env_assumptions(sc)
live = [p for p in paths if p.kind != 'oob']
to = time.time()
res = collections.Counter()
slow = []
for p in live:
    for ob in P.PROPS[pid](sc, req, p):
        t = time.time()
        r, _ = dec.check(list(p.pc) + env + ob.neg, ob.name)
        dt = time.time() - t
        res[(ob.name, r)] += 1
        if dt > 2:
            slow.append((round(dt, 1), ob.name, r, p.kind))
print('obligations %.1fs' % (time.time() - to))
for k, v in sorted(res.items()):
    print('  ', v, k)
print(slow[:20])
