//! ats-replay: run a JSON scenario against the real ats-smart-contract entry points
//! (native build, mock deps) and print a JSON result. See README.md for the formats.

use std::cell::RefCell;
use std::collections::BTreeMap;
use std::io::Read;
use std::panic::{catch_unwind, AssertUnwindSafe};
use std::rc::Rc;

use ats_smart_contract::ask_order::{AskOrderV1, ASKS_V1};
#[allow(deprecated)]
use ats_smart_contract::bid_order::{BidOrderV2, BIDS_V2};
use ats_smart_contract::bid_order::{BidOrderV3, BIDS_V3};
use ats_smart_contract::contract::{execute, instantiate, migrate, query};
use ats_smart_contract::contract_info::{set_contract_info, ContractInfoV3};
use ats_smart_contract::msg::{ExecuteMsg, InstantiateMsg, MigrateMsg, QueryMsg};
use ats_smart_contract::version_info::{set_version_info, VersionInfoV1};
use cosmwasm_std::testing::{mock_env, mock_info, MockApi, MockStorage, MOCK_CONTRACT_ADDR};
use cosmwasm_std::{
    to_binary, Addr, BankMsg, Binary, Coin, ContractResult, CosmosMsg, Empty, Env, Order,
    OwnedDeps, QuerierResult, Response, Storage, SystemError, SystemResult,
};
use prost::Message;
use provwasm_common::MockableQuerier;
use provwasm_mocks::{mock_provenance_dependencies, MockProvenanceQuerier};
use provwasm_std::shim::Any;
use provwasm_std::types::cosmos::auth::v1beta1::BaseAccount;
use provwasm_std::types::provenance::attribute::v1::{
    Attribute, AttributeType, QueryAttributesRequest, QueryAttributesResponse,
};
use provwasm_std::types::provenance::marker::v1::{
    AccessGrant, MarkerAccount, MarkerStatus, MarkerType, MsgTransferRequest, QueryMarkerRequest,
    QueryMarkerResponse,
};
use serde::Deserialize;
use serde_json::{json, Map, Value};

const MARKER_QUERY_PATH: &str = "/provenance.marker.v1.Query/Marker";
const ATTRIBUTES_QUERY_PATH: &str = "/provenance.attribute.v1.Query/Attributes";
const MARKER_ACCOUNT_URL: &str = "/provenance.marker.v1.MarkerAccount";
const TRANSFER_URL: &str = "/provenance.marker.v1.MsgTransferRequest";
const MARKER_KINDS: [&str; 6] = ["restricted", "coin", "none", "undecodable", "restricted_inactive", "coin_inactive"];

type Deps = OwnedDeps<MockStorage, MockApi, MockProvenanceQuerier, Empty>;

// ---------------------------------------------------------------- scenario (input)

#[derive(Deserialize)]
#[serde(deny_unknown_fields)]
struct Scenario {
    #[serde(default, rename = "name")]
    _name: Option<Value>, // free-form, ignored
    #[serde(default, rename = "comment")]
    _comment: Option<Value>, // free-form, ignored
    contract_addr: Option<String>,
    seed: Option<Seed>,
    #[serde(default)]
    markers: BTreeMap<String, String>,
    default_marker: Option<String>,
    #[serde(default)]
    attributes: BTreeMap<String, AttrSpec>,
    #[serde(default)]
    steps: Vec<Step>,
}

#[derive(Deserialize, Default)]
#[serde(deny_unknown_fields)]
struct Seed {
    contract_info: Option<ContractInfoV3>,
    version_info: Option<VersionInfoV1>,
    #[serde(default)]
    asks: Vec<SeedAsk>,
    #[serde(default)]
    bids: Vec<SeedBid>,
    #[serde(default)]
    raw: Vec<SeedRaw>,
}

#[derive(Deserialize)]
#[serde(deny_unknown_fields)]
struct SeedAsk {
    key: String,
    value: AskOrderV1,
}

#[derive(Deserialize)]
#[serde(deny_unknown_fields)]
struct SeedBid {
    key: String,
    #[serde(default = "v3")]
    format: String,
    value: Value,
}

fn v3() -> String {
    "v3".to_string()
}

#[derive(Deserialize)]
#[serde(deny_unknown_fields)]
struct SeedRaw {
    key_hex: String,
    value_utf8: Option<String>,
    value_hex: Option<String>,
}

#[derive(Deserialize, Clone)]
#[serde(untagged)]
enum AttrSpec {
    Names(Vec<String>),
    Word(String), // only "error" is accepted
}

#[derive(Deserialize)]
#[serde(deny_unknown_fields)]
struct Step {
    #[serde(default, rename = "name")]
    _name: Option<Value>, // free-form, ignored
    #[serde(default, rename = "comment")]
    _comment: Option<Value>, // free-form, ignored
    kind: String,
    #[serde(default)]
    sender: String,
    #[serde(default)]
    funds: Vec<Coin>,
    #[serde(default)]
    msg: Value,
    markers: Option<BTreeMap<String, String>>,
    attributes: Option<BTreeMap<String, AttrSpec>>,
}

// ---------------------------------------------------------------- mock querier tables

struct Tables {
    contract_addr: String,
    markers: BTreeMap<String, String>,
    default_marker: String,
    attributes: BTreeMap<String, AttrSpec>,
}

fn ok_bin(bin: Binary) -> QuerierResult {
    SystemResult::Ok(ContractResult::Ok(bin))
}

fn bad_request(err: prost::DecodeError, data: &Binary) -> QuerierResult {
    SystemResult::Err(SystemError::InvalidRequest {
        error: format!("replay: cannot decode request: {err}"),
        request: data.clone(),
    })
}

/// Answer `/provenance.marker.v1.Query/Marker` per denom. NB: the response travels as JSON
/// (exactly like `QueryMarkerRequest::mock_response` does it), not as protobuf.
fn marker_answer(t: &Tables, data: &Binary) -> QuerierResult {
    let req = match QueryMarkerRequest::decode(data.as_slice()) {
        Ok(r) => r,
        Err(e) => return bad_request(e, data),
    };
    let kind = t.markers.get(&req.id).unwrap_or(&t.default_marker).as_str();
    let marker_type = match kind {
        "restricted" | "restricted_inactive" => MarkerType::Restricted,
        "coin" | "coin_inactive" => MarkerType::Coin,
        // A marker that JSON-decodes to nothing usable: `denom` has the wrong type, so
        // deserialising the `Any` (and therefore the whole response) fails in the contract.
        "undecodable" => {
            let raw = json!({"marker": {"@type": MARKER_ACCOUNT_URL, "denom": 12345}});
            return ok_bin(Binary::from(raw.to_string().into_bytes()));
        }
        _ => return ok_bin(to_binary(&QueryMarkerResponse { marker: None }).unwrap()),
    };
    let account = MarkerAccount {
        base_account: Some(BaseAccount {
            address: format!("marker_{}", req.id),
            pub_key: None,
            account_number: 10,
            sequence: 0,
        }),
        manager: String::new(),
        access_control: vec![AccessGrant {
            address: t.contract_addr.clone(),
            permissions: vec![1, 2, 3, 4, 5, 6, 7],
        }],
        status: if kind.ends_with("_inactive") { MarkerStatus::Finalized.into() } else { MarkerStatus::Active.into() },
        denom: req.id.clone(),
        supply: "1000000000".to_string(),
        marker_type: marker_type.into(),
        supply_fixed: false,
        allow_governance_control: true,
        allow_forced_transfer: false,
        required_attributes: vec![],
    };
    let resp = QueryMarkerResponse {
        marker: Some(Any {
            type_url: MARKER_ACCOUNT_URL.to_string(),
            value: account.encode_to_vec(),
        }),
    };
    ok_bin(to_binary(&resp).unwrap())
}

/// Answer `/provenance.attribute.v1.Query/Attributes` per account.
fn attributes_answer(t: &Tables, data: &Binary) -> QuerierResult {
    let req = match QueryAttributesRequest::decode(data.as_slice()) {
        Ok(r) => r,
        Err(e) => return bad_request(e, data),
    };
    let names = match t.attributes.get(&req.account) {
        Some(AttrSpec::Word(_)) => {
            let msg = format!("replay: attribute query failed for {}", req.account);
            return SystemResult::Ok(ContractResult::Err(msg));
        }
        Some(AttrSpec::Names(names)) => names.clone(),
        None => vec![],
    };
    let resp = QueryAttributesResponse {
        account: req.account.clone(),
        attributes: names
            .into_iter()
            .map(|name| Attribute {
                name,
                value: vec![],
                attribute_type: AttributeType::String.into(),
                address: req.account.clone(),
            })
            .collect(),
        pagination: None,
    };
    ok_bin(to_binary(&resp).unwrap())
}

fn install_querier(deps: &mut Deps, tables: &Rc<RefCell<Tables>>) {
    let t = tables.clone();
    deps.querier.register_custom_query(
        MARKER_QUERY_PATH.to_string(),
        Box::new(move |data| marker_answer(&t.borrow(), data)),
    );
    let t = tables.clone();
    deps.querier.register_custom_query(
        ATTRIBUTES_QUERY_PATH.to_string(),
        Box::new(move |data| attributes_answer(&t.borrow(), data)),
    );
}

// ---------------------------------------------------------------- helpers

fn die(msg: String) -> ! {
    eprintln!("ats-replay: malformed scenario: {msg}");
    std::process::exit(2);
}

fn hex_encode(bytes: &[u8]) -> String {
    bytes.iter().map(|b| format!("{b:02x}")).collect()
}

fn hex_decode(s: &str) -> Result<Vec<u8>, String> {
    if s.len() % 2 != 0 || !s.is_ascii() {
        return Err(format!("bad hex string {s:?}"));
    }
    (0..s.len())
        .step_by(2)
        .map(|i| u8::from_str_radix(&s[i..i + 2], 16).map_err(|e| format!("bad hex {s:?}: {e}")))
        .collect()
}

fn check_marker_kinds<'a>(kinds: impl Iterator<Item = &'a String>) {
    for k in kinds {
        if !MARKER_KINDS.contains(&k.as_str()) {
            die(format!("unknown marker kind {k:?} (expected one of {MARKER_KINDS:?})"));
        }
    }
}

fn check_attr_specs<'a>(specs: impl Iterator<Item = &'a AttrSpec>) {
    for s in specs {
        if let AttrSpec::Word(w) = s {
            if w != "error" {
                die(format!("attributes entry must be a list of names or \"error\", got {w:?}"));
            }
        }
    }
}

/// JSON bytes -> Value; falls back to the lossy string when the bytes are not JSON.
fn parse_json(bytes: &[u8]) -> Value {
    serde_json::from_slice(bytes)
        .unwrap_or_else(|_| Value::String(String::from_utf8_lossy(bytes).into_owned()))
}

/// `Map::new(ns)` keys are: 2-byte big-endian namespace length, namespace, raw key.
fn map_prefix(ns: &str) -> Vec<u8> {
    let mut p = (ns.len() as u16).to_be_bytes().to_vec();
    p.extend_from_slice(ns.as_bytes());
    p
}

fn snapshot(storage: &MockStorage) -> Vec<(Vec<u8>, Vec<u8>)> {
    storage.range(None, None, Order::Ascending).collect()
}

fn restore(snap: &[(Vec<u8>, Vec<u8>)]) -> MockStorage {
    let mut s = MockStorage::new();
    for (k, v) in snap {
        s.set(k, v);
    }
    s
}

fn dump_storage(storage: &MockStorage) -> Value {
    let (ask_p, bid_p) = (map_prefix("ask"), map_prefix("bid"));
    let (mut contract_info, mut version_info) = (Value::Null, Value::Null);
    let (mut asks, mut bids, mut other) = (Map::new(), Map::new(), Vec::new());
    for (k, v) in storage.range(None, None, Order::Ascending) {
        if k == b"contract_info" {
            contract_info = parse_json(&v);
        } else if k == b"version_info" {
            version_info = parse_json(&v);
        } else if let Some(rest) = k.strip_prefix(ask_p.as_slice()) {
            asks.insert(String::from_utf8_lossy(rest).into_owned(), parse_json(&v));
        } else if let Some(rest) = k.strip_prefix(bid_p.as_slice()) {
            bids.insert(String::from_utf8_lossy(rest).into_owned(), parse_json(&v));
        } else {
            other.push(Value::String(hex_encode(&k)));
        }
    }
    json!({"contract_info": contract_info, "version_info": version_info,
           "asks": asks, "bids": bids, "other_keys_hex": other})
}

fn coins_json(coins: &[Coin]) -> Value {
    coins
        .iter()
        .map(|c| json!({"denom": c.denom, "amount": c.amount.to_string()}))
        .collect()
}

fn message_json(msg: &CosmosMsg<Empty>) -> Value {
    match msg {
        CosmosMsg::Bank(BankMsg::Send { to_address, amount }) => {
            json!({"type": "bank_send", "to": to_address, "coins": coins_json(amount)})
        }
        CosmosMsg::Stargate { type_url, value } if type_url == TRANSFER_URL => {
            match MsgTransferRequest::decode(value.as_slice()) {
                Ok(t) => {
                    let (denom, amount) = match t.amount {
                        Some(c) => (Value::String(c.denom), Value::String(c.amount)),
                        None => (Value::Null, Value::Null),
                    };
                    json!({"type": "marker_transfer", "denom": denom, "amount": amount,
                           "administrator": t.administrator, "from": t.from_address,
                           "to": t.to_address})
                }
                Err(e) => json!({"type": "other", "debug": format!("{msg:?} (decode: {e})")}),
            }
        }
        other => json!({"type": "other", "debug": format!("{other:?}")}),
    }
}

fn error_variant(debug: &str) -> String {
    debug.chars().take_while(|c| c.is_alphanumeric() || *c == '_').collect()
}

// ---------------------------------------------------------------- running one step

enum Outcome {
    Response(Response),
    Data(Binary),
    Err(String),
    BadMsg(String),
}

thread_local! {
    static LAST_PANIC: RefCell<(String, String)> = RefCell::new((String::new(), String::new()));
}

fn call_contract(deps: &mut Deps, env: &Env, step: &Step) -> Outcome {
    macro_rules! msg {
        ($t:ty) => {
            match serde_json::from_value::<$t>(step.msg.clone()) {
                Ok(m) => m,
                Err(e) => return Outcome::BadMsg(e.to_string()),
            }
        };
    }
    let info = mock_info(&step.sender, &step.funds);
    let res = match step.kind.as_str() {
        "instantiate" => {
            instantiate(deps.as_mut(), env.clone(), info, msg!(InstantiateMsg)).map(Outcome::Response)
        }
        "execute" => {
            execute(deps.as_mut(), env.clone(), info, msg!(ExecuteMsg)).map(Outcome::Response)
        }
        "migrate" => migrate(deps.as_mut(), env.clone(), msg!(MigrateMsg)).map(Outcome::Response),
        "query" => {
            return match query(deps.as_ref(), env.clone(), msg!(QueryMsg)) {
                Ok(bin) => Outcome::Data(bin),
                Err(e) => Outcome::Err(format!("{e:?}")),
            }
        }
        other => unreachable!("step kind {other} was validated up front"),
    };
    res.unwrap_or_else(|e| Outcome::Err(format!("{e:?}")))
}

fn run_step(deps: &mut Deps, env: &Env, step: &Step) -> Value {
    let before = snapshot(&deps.storage);
    let caught = catch_unwind(AssertUnwindSafe(|| call_contract(deps, env, step)));
    let mut out = Map::new();
    let mut put = |k: &str, v: Value| {
        out.insert(k.to_string(), v);
    };
    put("messages", json!([]));
    put("attributes", json!([]));
    put("data", Value::Null);
    let mut failed = true;
    match caught {
        Ok(Outcome::Response(resp)) => {
            failed = false;
            put("outcome", json!("ok"));
            put("messages", resp.messages.iter().map(|m| message_json(&m.msg)).collect());
            let attrs = resp.attributes.iter();
            put("attributes", attrs.map(|a| json!({"key": a.key, "value": a.value})).collect());
        }
        Ok(Outcome::Data(bin)) => {
            failed = false;
            put("outcome", json!("ok"));
            put("data", parse_json(bin.as_slice()));
        }
        Ok(Outcome::Err(debug)) => {
            put("outcome", json!("err"));
            put("error_variant", json!(error_variant(&debug)));
            put("error", json!(debug));
        }
        Ok(Outcome::BadMsg(e)) => {
            put("outcome", json!("bad_msg"));
            put("error", json!(e));
        }
        Err(_) => {
            let (message, location) = LAST_PANIC.with(|p| p.borrow().clone());
            put("outcome", json!("panic"));
            put("panic", json!(message));
            put("panic_location", json!(location));
        }
    }
    if failed {
        deps.storage = restore(&before); // a failed tx changes nothing on chain
    }
    put("storage", dump_storage(&deps.storage));
    Value::Object(out)
}

// ---------------------------------------------------------------- main

fn apply_seed(deps: &mut Deps, seed: Seed) {
    let fail = |what: &str, e: String| -> ! { die(format!("seed.{what}: {e}")) };
    if let Some(ci) = &seed.contract_info {
        set_contract_info(&mut deps.storage, ci).unwrap_or_else(|e| fail("contract_info", e.to_string()));
    }
    if let Some(vi) = &seed.version_info {
        set_version_info(&mut deps.storage, vi).unwrap_or_else(|e| fail("version_info", e.to_string()));
    }
    for a in &seed.asks {
        ASKS_V1
            .save(&mut deps.storage, a.key.as_bytes(), &a.value)
            .unwrap_or_else(|e| fail("asks", e.to_string()));
    }
    for b in seed.bids {
        let key = b.key.as_bytes();
        let saved = match b.format.as_str() {
            "v3" => serde_json::from_value::<BidOrderV3>(b.value)
                .map_err(|e| e.to_string())
                .and_then(|o| BIDS_V3.save(&mut deps.storage, key, &o).map_err(|e| e.to_string())),
            #[allow(deprecated)]
            "v2" => serde_json::from_value::<BidOrderV2>(b.value)
                .map_err(|e| e.to_string())
                .and_then(|o| BIDS_V2.save(&mut deps.storage, key, &o).map_err(|e| e.to_string())),
            other => Err(format!("unknown bid format {other:?} (expected \"v3\" or \"v2\")")),
        };
        saved.unwrap_or_else(|e| fail(&format!("bids[{}]", b.key), e));
    }
    for r in &seed.raw {
        let key = hex_decode(&r.key_hex).unwrap_or_else(|e| fail("raw", e));
        let value = match (&r.value_utf8, &r.value_hex) {
            (Some(s), None) => s.clone().into_bytes(),
            (None, Some(h)) => hex_decode(h).unwrap_or_else(|e| fail("raw", e)),
            _ => fail("raw", "exactly one of value_utf8 / value_hex is required".to_string()),
        };
        deps.storage.set(&key, &value);
    }
}

fn main() {
    let mut input = String::new();
    let read = match std::env::args().nth(1) {
        Some(path) => std::fs::read_to_string(&path).map(|s| input = s).map_err(|e| format!("{path}: {e}")),
        None => std::io::stdin().read_to_string(&mut input).map(|_| ()).map_err(|e| format!("stdin: {e}")),
    };
    if let Err(e) = read {
        die(e);
    }
    let scenario: Scenario = serde_json::from_str(&input).unwrap_or_else(|e| die(e.to_string()));

    // Validate everything that is not a contract message up front, so exit 2 happens early.
    check_marker_kinds(scenario.markers.values().chain(scenario.default_marker.iter()));
    check_attr_specs(scenario.attributes.values());
    for (i, s) in scenario.steps.iter().enumerate() {
        if !["instantiate", "execute", "query", "migrate"].contains(&s.kind.as_str()) {
            die(format!("steps[{i}]: unknown kind {:?}", s.kind));
        }
        check_marker_kinds(s.markers.iter().flat_map(|m| m.values()));
        check_attr_specs(s.attributes.iter().flat_map(|m| m.values()));
    }

    // Panics are recorded silently; run_step turns them into {"outcome":"panic"}.
    std::panic::set_hook(Box::new(|info| {
        let payload = info.payload();
        let message = payload
            .downcast_ref::<&str>()
            .map(|s| s.to_string())
            .or_else(|| payload.downcast_ref::<String>().cloned())
            .unwrap_or_else(|| "<non-string panic payload>".to_string());
        let location = info.location().map(|l| l.to_string()).unwrap_or_default();
        LAST_PANIC.with(|p| *p.borrow_mut() = (message, location));
    }));

    let contract_addr = scenario.contract_addr.unwrap_or_else(|| MOCK_CONTRACT_ADDR.to_string());
    let tables = Rc::new(RefCell::new(Tables {
        contract_addr: contract_addr.clone(),
        markers: scenario.markers,
        default_marker: scenario.default_marker.unwrap_or_else(|| "none".to_string()),
        attributes: scenario.attributes,
    }));
    let mut deps = mock_provenance_dependencies();
    install_querier(&mut deps, &tables);
    apply_seed(&mut deps, scenario.seed.unwrap_or_default());
    let mut env = mock_env();
    env.contract.address = Addr::unchecked(contract_addr);

    let mut results = Vec::new();
    for step in &scenario.steps {
        {
            // Per-step overrides are merged into the tables and stay in force afterwards.
            let mut t = tables.borrow_mut();
            t.markers.extend(step.markers.clone().unwrap_or_default());
            t.attributes.extend(step.attributes.clone().unwrap_or_default());
        }
        results.push(run_step(&mut deps, &env, step));
    }
    println!("{}", json!({ "steps": results }));
}

// ---------------------------------------------------------------- self-checks of the mock querier

#[cfg(test)]
mod tests {
    use super::*;
    use ats_smart_contract::util::is_restricted_marker;
    use cosmwasm_std::QuerierWrapper;
    use provwasm_std::types::provenance::attribute::v1::AttributeQuerier;
    use provwasm_std::types::provenance::marker::v1::MarkerQuerier;
    use std::convert::TryFrom;

    fn deps_with(markers: &[(&str, &str)], attributes: &[(&str, AttrSpec)]) -> Deps {
        let tables = Rc::new(RefCell::new(Tables {
            contract_addr: MOCK_CONTRACT_ADDR.to_string(),
            markers: markers.iter().map(|(d, k)| (d.to_string(), k.to_string())).collect(),
            default_marker: "none".to_string(),
            attributes: attributes.iter().map(|(a, s)| (a.to_string(), s.clone())).collect(),
        }));
        let mut deps = mock_provenance_dependencies();
        install_querier(&mut deps, &tables);
        deps
    }

    #[test]
    fn marker_kinds_are_answered_per_denom() {
        let deps = deps_with(&[("r", "restricted"), ("c", "coin"), ("n", "none"), ("u", "undecodable")], &[]);
        let wrapper: QuerierWrapper<Empty> = QuerierWrapper::new(&deps.querier);
        let q = MarkerQuerier::new(&wrapper);

        let r = MarkerAccount::try_from(q.marker("r".into()).unwrap().marker.unwrap()).unwrap();
        assert_eq!((r.marker_type, r.denom.as_str()), (2, "r"));
        let c = MarkerAccount::try_from(q.marker("c".into()).unwrap().marker.unwrap()).unwrap();
        assert_eq!((c.marker_type, c.denom.as_str()), (1, "c"));
        assert!(q.marker("n".into()).unwrap().marker.is_none());
        assert!(q.marker("unlisted".into()).unwrap().marker.is_none());
        assert!(q.marker("u".into()).is_err());

        assert!(is_restricted_marker(&wrapper, "r".into()));
        for d in ["c", "n", "u", "unlisted"] {
            assert!(!is_restricted_marker(&wrapper, d.into()), "{d}");
        }
    }

    #[test]
    fn attributes_are_answered_per_account() {
        let deps = deps_with(
            &[],
            &[
                ("alice", AttrSpec::Names(vec!["a.b".into(), "c.d".into()])),
                ("mallory", AttrSpec::Word("error".into())),
            ],
        );
        let wrapper: QuerierWrapper<Empty> = QuerierWrapper::new(&deps.querier);
        let q = AttributeQuerier::new(&wrapper);
        let names = |acct: &str| -> Vec<String> {
            let resp = q.attributes(acct.to_string(), None).unwrap();
            resp.attributes.into_iter().map(|a| a.name).collect()
        };
        assert_eq!(names("alice"), vec!["a.b", "c.d"]);
        assert!(names("bob").is_empty());
        assert!(q.attributes("mallory".to_string(), None).is_err());
    }
}
