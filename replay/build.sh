#!/usr/bin/env bash
# Offline dev-profile build of ats-replay. Cargo's own chatter goes to stderr;
# the only thing printed on stdout is the path of the binary.
set -euo pipefail
cd "$(dirname "$0")"
export CARGO_NET_OFFLINE=true
export CARGO_TARGET_DIR=/verif/.cache/replay-target
cargo build --offline
echo "$CARGO_TARGET_DIR/debug/ats-replay"
