//! Kani second opinion on the compiled legacy-bid conversion (C15): `BidOrderV3::from(BidOrderV2)` for every event log of
//! up to 2 events with symbolic kinds, amounts and optional fees (full-width u64 amounts so that sums cannot overflow u128).
#![allow(deprecated)]

#[cfg(kani)]
mod proofs {
    use ats_smart_contract::bid_order::{BidOrderV2, BidOrderV3};
    use ats_smart_contract::common::{Action, BlockInfo, Event};
    use cosmwasm_std::{Addr, Coin, Uint128};

    fn coin(a: u64) -> Coin {
        Coin { denom: String::new(), amount: Uint128::new(a as u128) }
    }

    fn any_event() -> (Event, u128, u128, u128) {
        let kind: u8 = kani::any();
        kani::assume(kind < 3);
        let base: u64 = kani::any();
        let quote: u64 = kani::any();
        let fee: u64 = kani::any();
        let has_fee: bool = kani::any();
        let f = if has_fee { Some(coin(fee)) } else { None };
        let fee_sum = if has_fee { fee as u128 } else { 0 };
        let (action, b, q) = match kind {
            0 => (Action::Fill { base: coin(base), fee: f, price: String::new(), quote: coin(quote) }, base as u128, quote as u128),
            1 => (Action::Refund { fee: f, quote: coin(quote) }, 0u128, quote as u128),
            _ => (Action::Reject { base: coin(base), fee: f, quote: coin(quote) }, base as u128, quote as u128),
        };
        (Event { action, block_info: BlockInfo::default() }, b, q, fee_sum)
    }

    #[kani::proof]
    #[kani::unwind(4)]
    fn conversion_sums_match_event_log() {
        let n: u8 = kani::any();
        kani::assume(n <= 2);
        let mut events = Vec::new();
        let (mut sb, mut sq, mut sf) = (0u128, 0u128, 0u128);
        let mut i = 0u8;
        while i < n {
            let (e, b, q, f) = any_event();
            events.push(e);
            sb += b;
            sq += q;
            sf += f;
            i += 1;
        }
        let base: u64 = kani::any();
        let quote: u64 = kani::any();
        let has_fee: bool = kani::any();
        let fee: u64 = kani::any();
        let old = BidOrderV2 {
            base: coin(base),
            events,
            fee: if has_fee { Some(coin(fee)) } else { None },
            id: String::new(),
            owner: Addr::unchecked(""),
            price: String::new(),
            quote: coin(quote),
        };
        let new: BidOrderV3 = old.into();
        assert!(new.accumulated_base.u128() == sb);
        assert!(new.accumulated_quote.u128() == sq);
        assert!(new.accumulated_fee.u128() == sf);
        assert!(new.base.amount.u128() == base as u128);
        assert!(new.quote.amount.u128() == quote as u128);
        assert!(new.fee.is_some() == has_fee);
        if has_fee {
            assert!(new.fee.as_ref().unwrap().amount.u128() == fee as u128);
        }
        kani::cover!(n == 2 && sf > 0, "two events with a fee are reachable");
        core::mem::forget(new);
    }

    /// C11 (accumulate-only bookkeeping): `BidOrderV3::update_remaining_amounts` with any action grows the three accumulators by
    /// exactly the action's amounts and touches no other field (u64-range operands, so the u128 sums cannot overflow).
    #[kani::proof]
    #[kani::unwind(2)]
    fn update_remaining_amounts_only_accumulates() {
        let (ab, aq, af): (u64, u64, u64) = (kani::any(), kani::any(), kani::any());
        let (base, quote, fee): (u64, u64, u64) = (kani::any(), kani::any(), kani::any());
        let has_fee: bool = kani::any();
        let mut bid = BidOrderV3 {
            base: coin(base),
            accumulated_base: Uint128::new(ab as u128),
            accumulated_quote: Uint128::new(aq as u128),
            accumulated_fee: Uint128::new(af as u128),
            fee: if has_fee { Some(coin(fee)) } else { None },
            id: String::new(),
            owner: Addr::unchecked(""),
            price: String::new(),
            quote: coin(quote),
        };
        let (e, b, q, f) = any_event();
        let r = bid.update_remaining_amounts(&e.action);
        assert!(r.is_ok());
        assert!(bid.accumulated_base.u128() == ab as u128 + b);
        assert!(bid.accumulated_quote.u128() == aq as u128 + q);
        assert!(bid.accumulated_fee.u128() == af as u128 + f);
        assert!(bid.base.amount.u128() == base as u128 && bid.quote.amount.u128() == quote as u128);
        assert!(bid.fee.is_some() == has_fee);
        kani::cover!(f > 0 && b > 0, "an action with base and fee is reachable");
        core::mem::forget(bid);
        core::mem::forget(e);
    }
}
