#!/bin/bash
# offline setup: warm the dependency build caches used by every check (MIR build of /repo, native replay binary)
set -e
export CARGO_NET_OFFLINE=true
mkdir -p /verif/.cache
cd /repo
CARGO_TARGET_DIR=/verif/.cache/mir-target cargo rustc --offline --lib --crate-type rlib -- --emit=mir -C debug-assertions=off -C overflow-checks=on >/dev/null 2>&1 || { echo "MIR build failed"; exit 1; }
bash /verif/replay/build.sh >/dev/null 2>&1 || { echo "replay build failed"; exit 1; }
python3-vt -m compileall -q /verif/mirsym >/dev/null
python3-vt -c "import z3; print('z3', z3.get_version_string())"
echo setup ok
