"""Turn a solver model into concrete strings / numbers / JSON so that a scenario can be replayed against the real contract."""
import re
import z3
from .engine import (Adt, Opaque, StrS, all_lits, f_uuid_ok, f_uuid_hyph, f_dec_ok, f_dec_n, f_dec_d, f_addr_ok, f_marker_found, f_marker_dec,
                     f_marker_type, f_attr_ok, f_sv_ok, f_sv_maj, f_sv_min, f_sv_pat, f_sv_pre, f_numstr)
from .models import f_decstr, snake
from .engine import f_dec_canon, f_dec_scale


def dec_text(n, d):
    """decimal text with mantissa n and scale log10(d)"""
    neg = n < 0
    n = abs(n)
    k = len(str(d)) - 1
    s = str(n)
    if k > 0:
        s = s.rjust(k + 1, '0')
        s = s[:-k] + '.' + s[-k:]
    return ('-' if neg else '') + s


class Concretiser:
    """assigns concrete text to every string atom of a model, consistent with the model's facts."""

    ROLE_ORDER = ['literal', 'uuid', 'decimal', 'semver', 'addr', 'denom', 'attr', 'name', 'other']

    def __init__(self, model, sym):
        self.m = model
        self.sym = sym
        self.text = {}        # model value id (string repr) -> concrete text
        self.used = set()
        self.counter = 0
        for s, c in all_lits().items():
            v = self.val(c)
            self.text[v] = s
            self.used.add(s)
        # uuid classes: number each canonical value
        self.uuid_num = {}

    def val(self, t):
        return str(self.m.eval(t, model_completion=True))

    def ev(self, t):
        return self.m.eval(t, model_completion=True)

    def int(self, t):
        v = self.ev(t)
        return v.as_long() if z3.is_int_value(v) else int(str(v))

    def bool(self, t):
        return z3.is_true(self.ev(t))

    def fresh(self, fmt):
        while True:
            self.counter += 1
            s = fmt % self.counter
            if s not in self.used:
                self.used.add(s)
                return s

    def role_of(self, name):
        n = name.lower()
        if re.search(r'\.key$|\.id$|_id$|\bid\b', n):
            return 'uuid'
        if re.search(r'price|rate', n):
            return 'decimal'
        if re.search(r'version$', n):
            return 'semver'
        if re.search(r'owner|sender|approver|executor|account|acct|addr', n):
            return 'addr'
        if re.search(r'base|quote|conv|denom', n):
            return 'denom'
        if 'attr' in n:
            return 'attr'
        return 'name'

    def string(self, t, role=None):
        """concrete text for Str term t"""
        v = self.val(t)
        if v in self.text:
            return self.text[v]
        # produced strings
        tv = self.ev(t)
        s = self._make(t, role or 'other')
        self.text[v] = s
        self.used.add(s)
        return s

    def _uuid_text(self, num, canonical):
        h = '%032x' % num
        return '%s-%s-%s-%s-%s' % (h[:8], h[8:12], h[12:16], h[16:20], h[20:]) if canonical else h

    def _make(self, t, role):
        m = self.m
        if self.bool(f_uuid_ok(t)) and role in ('uuid', 'other', 'name'):
            hv = self.val(f_uuid_hyph(t))
            canonical = hv == self.val(t)
            if hv in self.text and re.match(r'^[0-9a-f]{8}-[0-9a-f]{4}-[0-9a-f]{4}-[0-9a-f]{4}-[0-9a-f]{12}$', self.text[hv]):
                # the canonical text is a literal (e.g. the nil UUID): spell this string as that value
                lit_txt = self.text[hv]
                if canonical:
                    return lit_txt
                for cand in (lit_txt.replace('-', ''), lit_txt.upper(), '{' + lit_txt + '}', 'urn:uuid:' + lit_txt):
                    if cand not in self.used:
                        return cand
                raise ValueError('out of uuid spellings')
            if hv not in self.uuid_num:
                lead = getattr(self, 'order_index', None)
                self.uuid_num[hv] = ((lead if lead else 0xa0) << 120) + len(self.uuid_num) + 1
            num = self.uuid_num[hv]
            txt = self._uuid_text(num, canonical)
            if canonical:
                return txt
            # a non-canonical spelling: un-hyphenated (legacy) first, then upper-case variants; the length the model gave the text is respected
            from .models import f_strlen
            want = self.int(f_strlen(t))
            hy = self._uuid_text(num, True)
            cands = (txt, txt.upper(), hy.upper(), hy[:9].upper() + hy[9:], '{' + hy + '}', 'urn:uuid:' + hy)
            for cand in [x for x in cands if len(x) == want] + list(cands):
                if cand not in self.used:
                    return cand
            raise ValueError('out of uuid spellings')
        if role == 'uuid':
            lead = getattr(self, 'order_index', None)
            return self.fresh(('%02x' % lead if lead else 'zz') + '-not-a-uuid-%d')
        if self.bool(f_dec_ok(t)) and role in ('decimal', 'other', 'name'):
            n, d = self.int(f_dec_n(t)), self.int(f_dec_d(t))
            full = len(str(d)) - 1
            sc = self.int(f_dec_scale(t))
            if 0 <= sc <= full and n % (10 ** (full - sc)) == 0:
                n, d = n // (10 ** (full - sc)), 10 ** sc              # exactly the number of fractional digits the model gave this text
                txt = dec_text(n, d)
                canon = self.bool(f_dec_canon(t))
                if canon and txt not in self.used:
                    return txt
                if not canon:
                    txt = txt if txt.startswith('-') else '+' + txt
                    while txt in self.used:
                        txt = txt[0] + '0' + txt[1:]
                    return txt
                n, d = self.int(f_dec_n(t)), self.int(f_dec_d(t))     # clash: fall back to the free choice of spelling below
            while d > 1 and n % 10 == 0:
                n, d = n // 10, d // 10
            txt = dec_text(n, d)
            canon = self.bool(f_dec_canon(t))
            # numerically equal prices written differently: trailing zeros (to_string keeps them), up to the scale bound
            while txt in self.used and len(str(d)) - 1 < full:
                n, d = n * 10, d * 10
                txt = dec_text(n, d)
            if canon:
                if txt in self.used:
                    raise ValueError('no further canonical spelling of decimal ' + txt)
                return txt
            # a non-canonical spelling: parsed alike, printed without the sign / leading zeros
            txt = txt if txt.startswith('-') else '+' + txt
            while txt in self.used:
                txt = txt[0] + '0' + txt[1:]
            return txt
        if role == 'decimal':
            return self.fresh('notanumber%d')
        if role == 'semver':
            if self.bool(f_sv_ok(t)):
                maj, mi, pa = self.int(f_sv_maj(t)), self.int(f_sv_min(t)), self.int(f_sv_pat(t))
                base = '%d.%d.%d' % (max(maj, 0), max(mi, 0), max(pa, 0))
                txt = base + ('-rc.1' if self.bool(f_sv_pre(t)) else '')
                k = 1
                while txt in self.used:
                    k += 1
                    txt = base + ('-rc.%d' % k if self.bool(f_sv_pre(t)) else '+build.%d' % k)
                return txt
            return self.fresh('not.a.version.%d')
        if role == 'addr':
            return self.fresh('addr%04d') if self.bool(f_addr_ok(t)) else self.fresh('BADADDR%d')
        if role == 'denom':
            return self.fresh('denom%d')
        if role == 'attr':
            return self.fresh('attr%d.pb')
        return self.fresh('str%d')

    def assign_all(self):
        """assign text to every named symbol, in role priority order so shared atoms get the most demanding spelling"""
        items = [(n, t) for n, t in self.sym.items() if isinstance(t, z3.ExprRef) and t.sort() == StrS]
        # storage keys first, in the byte order the model assumes for the store (key_rank), so that native iteration order agrees
        from .models import f_key_rank
        keys = [(n, t) for n, t in items if n.endswith('.key')]
        keys.sort(key=lambda nt: self.int(f_key_rank(nt[1])))
        for idx, (n, t) in enumerate(keys):
            self.order_index = idx + 1
            self.string(t, 'uuid')
        self.order_index = None
        order = {r: i for i, r in enumerate(self.ROLE_ORDER)}
        # within a role, in the byte order the model assumes (key_rank: ordered containers keyed by address iterate in that order);
        # address texts are numbered with a fixed width, so the order of assignment is their byte order
        items.sort(key=lambda nt: (order[self.role_of(nt[0])], self.int(f_key_rank(nt[1])) if self.role_of(nt[0]) == 'addr' else 0))
        for n, t in items:
            self.string(t, self.role_of(n))

    # ---- JSON rendering of engine values under the model
    def json(self, v, ti, serde_rename, hint=None):
        if isinstance(v, z3.ExprRef):
            if v.sort() == StrS:
                return self.term_string(v, hint)
            if z3.is_bool(v):
                return self.bool(v)
            return str(self.int(v))
        if isinstance(v, list):
            return [self.json(x, ti, serde_rename, hint) for x in v]
        if isinstance(v, Opaque):
            return {'opaque': v.tag}
        if isinstance(v, Adt):
            if v.ty == 'Option':
                return None if v.variant == 'None' else self.json(v.fields[0], ti, serde_rename, hint)
            if v.ty == 'Uint128':
                return str(self.int(v.fields[0]))
            if v.ty == 'Addr':
                return self.term_string(v.fields[0], 'addr')
            if v.ty == 'Timestamp':
                return str(self.int(v.fields[0]))
            if v.ty == 'BlockInfo':
                return {'height': self.int(v.fields[0]), 'time': self.json(v.fields[1], ti, serde_rename)}
            if v.ty == 'Coin':
                return {'denom': self.term_string(v.fields[0], 'denom'), 'amount': self.json(v.fields[1], ti, serde_rename)}
            if v.variant is not None:
                name = v.variant
                if serde_rename.get(v.ty) == 'snake_case':
                    name = snake(name)
                names = ti.variant_fields.get((v.ty, v.variant))
                if names is None:
                    if not v.fields:
                        return name
                    return {name: self.json(v.fields[0], ti, serde_rename)}
                return {name: {n: self.json(f, ti, serde_rename, n) for n, f in zip(names, v.fields)}}
            names = ti.structs.get(v.ty)
            if names is None:
                return {'adt': v.ty, 'fields': [self.json(f, ti, serde_rename) for f in v.fields]}
            return {n: self.json(f, ti, serde_rename, n) for n, f in zip(names, v.fields)}
        if v is None:
            return None
        return v

    def term_string(self, t, hint=None):
        """text of an arbitrary Str term (symbol, literal, numstr(..), decstr(..), uuid_hyph(..))"""
        if z3.is_app(t):
            dn = t.decl().name()
            if dn == 'numstr':
                return str(self.int(t.arg(0)))
            if dn == 'decstr':
                n, d = self.int(t.arg(0)), self.int(t.arg(1))
                while d > 1 and n % 10 == 0:
                    n, d = n // 10, d // 10
                return dec_text(n, d)
            if dn == 'deccanon':
                txt = self.term_string(t.arg(0), 'price')
                neg = txt.startswith('-')
                body = txt.lstrip('+-').lstrip('0')
                if body.startswith('.') or body == '':
                    body = '0' + body
                return ('-' if neg else '') + body
        v = self.val(t)
        if v in self.text:
            return self.text[v]
        role = None
        if hint:
            role = self.role_of(hint)
        return self.string(t, role)

    # ---- environment tables
    def marker_kind(self, denom_term):
        if not self.bool(f_marker_found(denom_term)):
            return 'none'
        from .engine import f_marker_status
        kind = 'restricted' if self.int(f_marker_type(denom_term)) == 2 else 'coin'
        return kind if self.int(f_marker_status(denom_term)) == 3 else kind + '_inactive'
