import z3, time, collections, sys
import mirparse as mp
import exec as E
from exec import *

# ---- extra models needed by execute_match ----
def m_dec_cmp(ex, st, a, c, m):
    x, y = deref(ex, a[0]), deref(ex, a[1]); l, r = x.fields[0] * y.fields[1], y.fields[0] * x.fields[1]
    return [(l < r, Adt('Ordering', 'Less', [])), (l == r, Adt('Ordering', 'Equal', [])), (l > r, Adt('Ordering', 'Greater', []))]
def m_dec_lt(ex, st, a, c, m):
    x, y = deref(ex, a[0]), deref(ex, a[1]); return [(True, x.fields[0] * y.fields[1] < y.fields[0] * x.fields[1])]
def m_dec_sub(ex, st, a, c, m):
    x, y = deref(ex, a[0]), deref(ex, a[1]); return [(True, some(Dec(x.fields[0] * y.fields[1] - y.fields[0] * x.fields[1], x.fields[1] * y.fields[1])))]
def m_dec_to_string(ex, st, a, c, m): return [(True, Opaque('DecStr', deref(ex, a[0])))]
def m_sub_assign(ex, st, a, c, m):
    r = a[0]; x = ex.read(r.cell, r.path); xv, yv = x.fields[0], uval(ex, a[1])
    ex.write(r.cell, r.path, U(xv - yv)); return [(xv >= yv, Adt('tuple', None, [])), (xv < yv, PANIC('sub_assign underflow'))]
def m_add_attribute(ex, st, a, c, m):
    v = a[2]; v = Opaque('NumStr', v.fields[0]) if isinstance(v, Adt) and v.ty == 'Uint128' else v
    a[0].fields[1].append(Adt('Attribute', None, [a[1], v])); return [(True, a[0])]
def m_map_update(ex, st, a, c, m):
    mapv, key, clo = deref(ex, a[0]), a[2], a[3]
    clo_text = re.search(r'(\{closure@[^}]*\})', c).group(1)
    # load
    cur = NONE()
    for (ens, ekey), (present, val) in st.world['store'].items():
        if z3.eq(ens, mapv.fields[0]) and z3.eq(ekey, key): cur = some(clone(val, {}))
    r = call_closure(ex, st, clo_text, clo, [cur])
    if r.variant == 'Ok': st.world['log'].append(('save', mapv.fields[0], key, clone(r.fields[0], {})))
    return [(True, r)]
def m_u_eq(ex, st, a, c, m):
    x, y = uval(ex, a[0]), uval(ex, a[1]); return [(True, x == y)]
def m_format(ex, st, a, c, m): return [(True, Opaque('Fmt'))]
def m_opaque(ex, st, a, c, m): return [(True, Opaque('x'))]
def m_must_use(ex, st, a, c, m): return [(True, a[0])]
def m_u_add(ex, st, a, c, m):
    x, y = uval(ex, a[0]), uval(ex, a[1]); return [(True, U(x + y))]

E.MODELS[:0] = [
    (r'^<rust_decimal::Decimal as Ord>::cmp$', m_dec_cmp), (r'^<rust_decimal::Decimal as PartialOrd>::lt$', m_dec_lt),
    (r'^rust_decimal::arithmetic_impls::<impl rust_decimal::Decimal>::checked_sub$', m_dec_sub),
    (r'^<rust_decimal::Decimal as ToString>::to_string$', m_dec_to_string), (r'^<Uint128 as SubAssign>::sub_assign$', m_sub_assign),
    (r'^Response::add_attribute$', m_add_attribute), (r'^cw_storage_plus::Map::update$', m_map_update),
    (r'^<Uint128 as PartialEq>::(eq|ne)$', None), (r'^format$', m_format), (r'^core::fmt::rt::Argument::new_debug$|^Arguments::new$', m_opaque), (r'^must_use$', m_must_use),
    (r'^<Uint128 as ToString>::to_string$', lambda ex, st, a, c, m: [(True, Opaque('NumStr', uval(ex, a[0])))]),
    (r'^<Uint128 as std::ops::Add>::add$', m_u_add), (r'^<&Uint128 as PartialEq>::eq$', m_u_eq),
]
E.MODELS[:] = [x for x in E.MODELS if x[1] is not None]

def main():
    text = open('c.mir').read(); items = mp.parse_items(text)
    ex = Exec(items, '/tmp/spike/repo'); ex.text = text
    S = lambda n: z3.Const(n, StrS); I = lambda n: z3.Int(n)
    B = 10 ** 12
    results = collections.Counter(); obl = collections.Counter(); t0 = time.time(); tob = 0.0
    combos = [(cls, bf, af) for cls in ('Basic', 'Ready', 'Pending') for bf in (False, True) for af in (False, True)]
    if len(sys.argv) > 1: combos = [combos[int(sys.argv[1])]]
    for cls, hasfee, askfee in combos:
        tcombo = time.time(); npaths = 0
        AK, BK = S('AK'), S('BK')
        a_size = I('a_size'); a_price = S('a_price'); apn, apd = f_dec_n(a_price), f_dec_d(a_price)
        base_amt, acc_b, acc_q, acc_f, q_amt, fee_amt, s_ = I('base_amt'), I('acc_b'), I('acc_q'), I('acc_f'), I('q_amt'), I('fee_amt'), I('exec_size')
        price = S('b_price'); pn, pd = f_dec_n(price), f_dec_d(price)
        xprice = S('x_price'); xn, xd = f_dec_n(xprice), f_dec_d(xprice)
        inc = I('inc'); bowner, aowner = S('bid_owner'), S('ask_owner'); qd = S('quote_denom'); bd = S('base_denom'); cd = S('conv_denom')
        klass = {'Basic': Adt('AskOrderClass', 'Basic', []),
                 'Pending': Adt('AskOrderClass', 'Convertible', [Adt('AskOrderStatus', 'PendingIssuerApproval', [])]),
                 'Ready': Adt('AskOrderClass', 'Convertible', [Adt('AskOrderStatus', 'Ready', [Adt('Addr', None, [S('approver')]), Adt('Coin', None, [bd, U(a_size)])])])}[cls]
        ask = Adt('AskOrderV1', None, [AK, Adt('Addr', None, [aowner]), klass, bd if cls == 'Basic' else cd, S('a_quote'), a_price, U(a_size)])
        fee = some(Adt('Coin', None, [qd, U(fee_amt)])) if hasfee else NONE()
        bid = Adt('BidOrderV3', None, [Adt('Coin', None, [bd, U(base_amt)]), U(acc_b), U(acc_q), U(acc_f), fee, BK, Adt('Addr', None, [bowner]), price, Adt('Coin', None, [qd, U(q_amt)])])
        arate = S('ask_rate'); rn, rd = f_dec_n(arate), f_dec_d(arate)
        afi = some(Adt('FeeInfo', None, [Adt('Addr', None, [S('askfee_acct')]), arate])) if askfee else NONE()
        bfi = some(Adt('FeeInfo', None, [Adt('Addr', None, [S('bidfee_acct')]), S('bid_rate')])) if hasfee else NONE()
        ci = Adt('ContractInfoV3', None, [S('name'), S('bind'), bd, [cd], [qd], [Adt('Addr', None, [S('appr1')])], [Adt('Addr', None, [S('exec1')])], afi, bfi, [], [], U(I('prec')), U(inc)])
        st = State(); st.world = {'store': {(lit('ask'), AK): (z3.BoolVal(True), ask), (lit('bid'), BK): (z3.BoolVal(True), bid)}, 'log': [], 'contract_info': ci}
        rem_b, rem_q, rem_f = base_amt - acc_b, q_amt - acc_q, fee_amt - acc_f
        scale = lambda d: z3.Or(d == 1, d == 100)
        inv = [f_dec_ok(price), pn > 0, pn < B, scale(pd), f_dec_ok(a_price), apn > 0, apn < B, scale(apd), scale(xd), xn >= 0, xn < B,
               inc >= 1, inc < B, a_size >= 1, a_size < B, base_amt >= 1, base_amt < B, base_amt % inc == 0, acc_b >= 0, acc_b < base_amt,
               q_amt >= 1, q_amt < B * B, q_amt * pd == pn * base_amt, acc_q >= 0, rem_q * pd == pn * rem_b, bd != cd,
               f_uuid_ok(AK), f_uuid_ok(BK), f_uuid_hyph(AK) == AK, f_uuid_hyph(BK) == BK, z3.Not(f_is_empty(xprice))]
        if hasfee:
            inv += [fee_amt >= 0, fee_amt < B, acc_f >= 0, acc_f <= fee_amt, 2 * q_amt * rem_f <= 2 * fee_amt * rem_q + q_amt, 2 * fee_amt * rem_q + q_amt < 2 * q_amt * (rem_f + 1)]
        if askfee: inv += [f_dec_ok(arate), rn >= 0, rn <= rd, z3.Or(rd == 1, rd == 1000)]
        st.pc = inv + [s_ >= 0, s_ < B]
        deps = Adt('DepsMut', None, [Opaque('storage'), Opaque('api'), Adt('QuerierWrapper', None, [Opaque('q')])])
        env = Adt('Env', None, [Opaque('block'), Opaque('tx'), Adt('ContractInfo', None, [Adt('Addr', None, [lit('CONTRACT')])])])
        info = Adt('MessageInfo', None, [Adt('Addr', None, [S('sender')]), []])
        msg = Adt('ExecuteMsg', 'ExecuteMatch', [AK, BK, xprice, U(s_)])
        out = Cell(); ex.body('execute')
        st.frames.append(Frame(items['execute'][0], [deps, env, info, msg], (out, [])))
        for fin in ex.run(st):
            if fin.outcome[0] == 'infeasible': continue
            npaths += 1
            if fin.outcome[0] != 'return':
                results[(cls, hasfee, askfee) + tuple(map(str, fin.outcome[:2]))] += 1; continue
            r = fin.outcome[1]
            if r.variant != 'Ok':
                e = r.fields[0]; results[(cls, hasfee, askfee, 'Err', e.variant or e.ty)] += 1; continue
            resp = r.fields[0]; msgs = resp.fields[0]
            results[(cls, hasfee, askfee, 'Ok', len(msgs), tuple(l[0] for l in fin.world['log'] if l[0] != 'load'))] += 1
            if not all(mm.variant == 'Send' for mm in msgs): continue      # check the all-unrestricted instance of each Ok shape
            # C01 local ledger equation on quote + fee:   sum(quote payouts) == (rem_q + rem_f) - (rem_q' + rem_f')   (bid removed => primes are 0)
            qpaid = sum(uval(ex, mm.fields[1][0].fields[1]) for mm in msgs if z3.eq(mm.fields[1][0].fields[0], qd))
            saves = [l for l in fin.world['log'] if l[0] == 'save' and z3.eq(l[1], lit('bid'))]
            if saves:
                nb = saves[-1][3]
                nrem_q = uval(ex, nb.fields[8].fields[1]) - uval(ex, nb.fields[2]); nrem_b = uval(ex, nb.fields[0].fields[1]) - uval(ex, nb.fields[1])
                nrem_f = (uval(ex, nb.fields[4].fields[0].fields[1]) - uval(ex, nb.fields[3])) if hasfee else 0
            else:
                nrem_q = nrem_f = 0
            good = qpaid == (rem_q + (rem_f if hasfee else 0)) - (nrem_q + nrem_f)
            F = z3.Solver(); F.set('timeout', 30000); F.add(*fin.pc); F.add(z3.Not(good))
            t = time.time(); rr = F.check(); dt = time.time() - t; tob += dt
            obl[('C01 quote ledger', cls, hasfee, askfee, bool(saves), str(rr))] += 1
            if rr == z3.sat and not obl.get(('shown', hasfee)):
                obl[('shown', hasfee)] = 1; mdl = F.model()
                ev = lambda t_: mdl.eval(t_, model_completion=True)
                print('  COUNTEREXAMPLE ledger: bid price %s/%s exec price %s/%s size %s  base %s filled %s quote %s spent %s fee %s spent %s  paid_out %s' % (
                    ev(pn), ev(pd), ev(xn), ev(xd), ev(s_), ev(base_amt), ev(acc_b), ev(q_amt), ev(acc_q), ev(fee_amt) if hasfee else '-', ev(acc_f) if hasfee else '-', ev(qpaid)), flush=True)
        print('combo', cls, 'bidfee' if hasfee else '-', 'askfee' if askfee else '-', 'paths', npaths, '%.1fs' % (time.time() - tcombo), flush=True)
    for k, v in sorted(results.items(), key=str): print(v, k)
    for k, v in sorted(obl.items(), key=str): print('OBL', v, k)
    print('unknown feasibility', getattr(ex, 'nunknown', 0)); print('solver checks', ex.nchecks, 'feasibility time %.2fs' % ex.tcheck, 'obligation time %.2fs' % tob, 'total %.2fs' % (time.time() - t0))
main()
