"""Symbolic pre-states (configuration, book, environment) satisfying the representation invariant Inv,
symbolic requests, and the driver that runs one real entry point from MIR and returns path summaries."""
import itertools, time
import z3
from .engine import (Adt, Ref, Cell, Opaque, State, Frame, StrS, lit, EMPTY, U, Addr, Coin, some, NONE, clone,
                     f_uuid_ok, f_uuid_hyph, f_dec_ok, f_dec_n, f_dec_d, f_addr_ok, f_marker_found, f_marker_dec, f_marker_type, f_uuid_nil,
                     f_attr_ok, f_sv_ok, f_sv_maj, f_sv_min, f_sv_pat, f_sv_pre, f_numstr)
from .models import World, Entry

CONTRACT = lit('CONTRACT')


class Bounds:
    def __init__(self, tier):
        if tier == 'quick':
            self.B = 10 ** 9            # amounts
            self.scales = [0, 1, 2, 3]  # decimal texts have at most max(scales) fractional digits
            self.precisions = [0, 2]
            self.nlist = 2
        else:
            self.B = 10 ** 12
            self.scales = [0, 1, 2, 3, 4, 5, 6]
            self.precisions = [0, 1, 2, 3, 4, 5, 6]
            self.nlist = 3
        self.tier = tier
        from . import engine as _E
        _E.set_dec_scale(max(self.scales))

    def describe(self):
        return {'amounts_lt': self.B, 'decimal_value_times_10^maxscale_lt': self.B, 'decimal_scales': self.scales, 'price_precisions': self.precisions,
                'rate_range': '[0,1]', 'list_len_le': self.nlist}


def S(name):
    return z3.Const(name, StrS)


def I(name):
    return z3.Int(name)


class Scenario:
    """one discrete shape of (configuration, book, request); every scalar is symbolic."""

    def __init__(self, eng, bounds, label=''):
        self.eng, self.b, self.label = eng, bounds, label
        self.ti = eng.ti
        self.assume = []           # Inv + bounds + environment assumptions (z3 Bool list)
        self.world = World()
        self.sym = {}              # name -> term (for concretisation / reports)
        self.shape = {}
        self.cfg = None
        self.asks, self.bids = [], []
        self.p10 = None
        # facts about the real parsers on the empty string
        self.assume += [z3.Not(f_uuid_ok(EMPTY)), z3.Not(f_dec_ok(EMPTY)), z3.Not(f_addr_ok(EMPTY)), z3.Not(f_sv_ok(EMPTY))]
        NIL = lit('00000000-0000-0000-0000-000000000000')
        self.assume += [f_uuid_ok(NIL), f_uuid_hyph(NIL) == NIL, f_uuid_nil(NIL)]

    # ---------- helpers
    def s(self, name):
        t = S(name)
        if name not in self.sym:
            self.sym[name] = t
            # a parseable UUID's canonical text is itself a canonical UUID
            h = f_uuid_hyph(t)
            self.assume.append(z3.Implies(f_uuid_ok(t), z3.And(f_uuid_ok(h), f_uuid_hyph(h) == h)))
            self.assume.append(z3.Implies(f_uuid_ok(t), f_uuid_nil(t) == (h == lit('00000000-0000-0000-0000-000000000000'))))
        return t

    def i(self, name, lo=None, hi=None):
        t = I(name)
        self.sym[name] = t
        if lo is not None:
            self.assume.append(t >= lo)
        if hi is not None:
            self.assume.append(t < hi)
        if lo is not None and hi is not None:
            self.eng.set_bound(t, lo, hi - 1)
        return t

    def scale_term(self, d):
        pass                     # decimals are carried over the constant common denominator 10^max_scale

    def decimal_string(self, name, lo, hi_excl=None, positive=False):
        """a string that parses as a decimal with mantissa in [lo, B) and scale in bounds; returns (str, n, d)"""
        s = self.s(name)
        n, d = f_dec_n(s), f_dec_d(s)
        self.assume += [f_dec_ok(s), n >= lo, n < (hi_excl or self.b.B)]
        self.eng.set_bound(n, lo, (hi_excl or self.b.B) - 1)
        self.scale_term(d)
        return s, n, d

    def free_decimal_string(self, name):
        """request-supplied decimal text: may fail to parse; when it parses the value is inside the bounds (stated bound)"""
        s = self.s(name)
        n, d = f_dec_n(s), f_dec_d(s)
        self.assume.append(z3.Implies(f_dec_ok(s), z3.And(n > -self.b.B, n < self.b.B)))
        self.eng.set_bound(n, -self.b.B + 1, self.b.B - 1)
        return s, n, d

    # ---------- configuration
    def make_cfg(self, ask_fee=False, bid_fee=False, n_appr=1, n_exec=1, n_conv=1, n_quote=1, n_ask_attr=0, n_bid_attr=0, present=True):
        ti = self.ti
        self.shape.update(ask_fee=ask_fee, bid_fee=bid_fee, n_appr=n_appr, n_exec=n_exec, n_conv=n_conv, n_quote=n_quote, n_ask_attr=n_ask_attr, n_bid_attr=n_bid_attr)
        base = self.s('cfg.base')
        conv = [self.s('cfg.conv%d' % k) for k in range(n_conv)]
        quotes = [self.s('cfg.quote%d' % k) for k in range(n_quote)]
        appr = [self.s('cfg.approver%d' % k) for k in range(n_appr)]
        execs = [self.s('cfg.executor%d' % k) for k in range(n_exec)]
        P = self.i('cfg.precision')
        self.assume.append(z3.Or(*[P == k for k in self.b.precisions]))
        self.eng.set_bound(P, min(self.b.precisions), max(self.b.precisions))
        inc = self.i('cfg.increment', 1, self.b.B)
        p10 = z3.IntVal(10 ** max(self.b.precisions))
        for k in sorted(self.b.precisions, reverse=True)[1:]:
            p10 = z3.If(P == k, z3.IntVal(10 ** k), p10)
        self.p10 = p10
        kinc = self.i('cfg.increment_mult', 1, self.b.B)
        self.assume += [inc == kinc * p10, base != EMPTY, self.s('cfg.name') != EMPTY]
        for a in appr + execs:
            self.assume.append(f_addr_ok(a))

        def fee(prefix):
            acct = self.s(prefix + '.account')
            rate, n, d = self.decimal_string(prefix + '.rate', 0)
            self.assume += [f_addr_ok(acct), n <= d, acct != CONTRACT]
            return some(ti.mk('FeeInfo', account=Addr(acct), rate=rate))
        afi = fee('cfg.ask_fee') if ask_fee else NONE()
        bfi = fee('cfg.bid_fee') if bid_fee else NONE()
        self.cfg = ti.mk('ContractInfoV3', name=self.sym['cfg.name'], bind_name=self.s('cfg.bind'), base_denom=base, convertible_base_denoms=conv,
                         supported_quote_denoms=quotes, approvers=[Addr(a) for a in appr], executors=[Addr(e) for e in execs],
                         ask_fee_info=afi, bid_fee_info=bfi,
                         ask_required_attributes=[self.s('cfg.ask_attr%d' % k) for k in range(n_ask_attr)],
                         bid_required_attributes=[self.s('cfg.bid_attr%d' % k) for k in range(n_bid_attr)],
                         price_precision=U(P), size_increment=U(inc))
        if present:
            self.world.items['contract_info'] = self.cfg
        ver = self.s('ver.version')
        self.world.items['version_info'] = ti.mk('VersionInfoV1', definition=self.s('ver.definition'), version=ver)
        return self.cfg

    def cfgf(self, name):
        return self.ti.get(self.cfg, name)

    def price_inv(self, prefix):
        """stored limit price: parses, > 0, at most P decimals"""
        s, n, d = self.decimal_string(prefix + '.price', 1)
        k = self.i(prefix + '.price_k', 1, self.b.B * 10 ** max(self.b.precisions))
        self.assume.append(n * self.p10 == k * d)
        return s, n, d

    # ---------- orders
    def add_ask(self, cls, idx=None, present=True):
        ti = self.ti
        j = len(self.asks) if idx is None else idx
        px = 'ask%d' % j
        key = self.s(px + '.key')
        self.assume.append(f_uuid_ok(key))
        owner = self.s(px + '.owner')
        self.assume.append(owner != CONTRACT)
        size = self.i(px + '.size', 1, self.b.B)
        price, pn, pd = self.price_inv(px)
        quote = self.s(px + '.quote')
        self.assume.append(z3.Or(*[quote == q for q in self.cfgf('supported_quote_denoms')]))
        base_denom = self.cfgf('base_denom')
        if cls == 'Basic':
            base = base_denom
            klass = Adt('AskOrderClass', 'Basic', [])
        else:
            base = self.s(px + '.base')
            conv = self.cfgf('convertible_base_denoms')
            self.assume.append(base != base_denom)
            self.assume.append(z3.Or(*[base == c for c in conv]) if conv else z3.BoolVal(False))
            if cls == 'Pending':
                klass = Adt('AskOrderClass', 'Convertible', [Adt('AskOrderStatus', 'PendingIssuerApproval', [])])
            else:
                approver = self.s(px + '.approver')
                self.assume.append(approver != CONTRACT)
                klass = Adt('AskOrderClass', 'Convertible', [ti.mk('AskOrderStatus', 'Ready', approver=Addr(approver), converted_base=Coin(base_denom, size))])
        ask = ti.mk('AskOrderV1', id=key, owner=Addr(owner), **{'class': klass}, base=base, quote=quote, price=price, size=U(size))
        pres = z3.BoolVal(True) if present is True else present
        self.world.maps['ask'].append(Entry(key, pres, ask, 'AskOrderV1'))
        rec = dict(prefix=px, key=key, owner=owner, size=size, price=price, pn=pn, pd=pd, quote=quote, base=base, cls=cls, val=ask,
                   approver=self.sym.get(px + '.approver'), present=pres)
        self.asks.append(rec)
        # distinct keys among named asks
        for o in self.asks[:-1]:
            self.assume.append(o['key'] != key)
        return rec

    def add_bid(self, hasfee, present=True):
        ti = self.ti
        j = len(self.bids)
        px = 'bid%d' % j
        key = self.s(px + '.key')
        self.assume.append(f_uuid_ok(key))
        owner = self.s(px + '.owner')
        self.assume.append(owner != CONTRACT)
        inc = self.sym['cfg.increment']
        base_amt = self.i(px + '.base', 1, self.b.B)
        kb = self.i(px + '.base_lots', 1, self.b.B)
        self.assume.append(base_amt == kb * inc)
        acc_b = self.i(px + '.acc_base', 0, self.b.B)
        self.assume.append(acc_b < base_amt)
        price, pn, pd = self.price_inv(px)
        q_amt = self.i(px + '.quote', 1, self.b.B)
        acc_q = self.i(px + '.acc_quote', 0, self.b.B)
        self.assume += [q_amt * pd == pn * base_amt, (q_amt - acc_q) * pd == pn * (base_amt - acc_b), acc_q <= q_amt]
        quote = self.s(px + '.quote_denom')
        self.assume.append(z3.Or(*[quote == q for q in self.cfgf('supported_quote_denoms')]))
        if hasfee:
            fee_amt = self.i(px + '.fee', 0, self.b.B)
            acc_f = self.i(px + '.acc_fee', 0, self.b.B)
            rem_f, rem_q = fee_amt - acc_f, q_amt - acc_q
            self.assume += [acc_f <= fee_amt, fee_amt <= q_amt,
                            2 * q_amt * rem_f <= 2 * fee_amt * rem_q + q_amt, 2 * fee_amt * rem_q + q_amt <= 2 * q_amt * (rem_f + 1)]
            fee = some(Coin(quote, fee_amt))
        else:
            fee_amt, acc_f = z3.IntVal(0), self.i(px + '.acc_fee', 0, 1)
            fee = NONE()
        bid = ti.mk('BidOrderV3', base=Coin(self.cfgf('base_denom'), base_amt), accumulated_base=U(acc_b), accumulated_quote=U(acc_q), accumulated_fee=U(acc_f),
                    fee=fee, id=key, owner=Addr(owner), price=price, quote=Coin(quote, q_amt))
        pres = z3.BoolVal(True) if present is True else present
        self.world.maps['bid'].append(Entry(key, pres, bid, 'BidOrderV3'))
        rec = dict(prefix=px, key=key, owner=owner, base=base_amt, acc_b=acc_b, acc_q=acc_q, acc_f=acc_f, quote_amt=q_amt, fee=fee_amt, hasfee=hasfee,
                   price=price, pn=pn, pd=pd, quote=quote, val=bid, present=pres)
        self.bids.append(rec)
        for o in self.bids[:-1]:
            self.assume.append(o['key'] != key)
        return rec

    def abstract_rest(self):
        """the remainder of the book: only observable through Map::is_empty"""
        self.world.rest_nonempty['ask'] = z3.Bool('rest.asks_nonempty')
        self.world.rest_nonempty['bid'] = z3.Bool('rest.bids_nonempty')
        self.sym['rest.asks_nonempty'] = self.world.rest_nonempty['ask']
        self.sym['rest.bids_nonempty'] = self.world.rest_nonempty['bid']

    # ---------- environment / request
    def env(self):
        ti = self.ti
        return ti.mk('Env', block=Opaque('block'), transaction=Opaque('tx'), contract=ti.mk('ContractInfo', address=Addr(CONTRACT)))

    def deps(self):
        return self.ti.mk('DepsMut', storage=Opaque('storage'), api=Opaque('api'), querier=Adt('QuerierWrapper', None, [Opaque('q')]))

    def info(self, nfunds=0, prefix='req'):
        sender = self.s(prefix + '.sender')
        self.assume.append(sender != CONTRACT)        # the contract never calls itself (it emits no wasm messages)
        funds = []
        for k in range(nfunds):
            funds.append(Coin(self.s('%s.fund%d.denom' % (prefix, k)), self.i('%s.fund%d.amount' % (prefix, k), 0, self.b.B * 4)))
        self.shape['nfunds'] = nfunds
        self.funds = funds
        return self.ti.mk('MessageInfo', sender=Addr(sender), funds=funds)

    def set_attrs(self, n):
        self.world.attrs = [self.s('env.attr%d' % k) for k in range(n)]
        self.shape['n_attrs'] = n

    # ---------- running
    def run_entry(self, fn, args, readonly=False, max_paths=200000, world=None, pc=None):
        """run crate function `fn` from MIR on this scenario (or from a given world / path condition); yields finished path states"""
        eng = self.eng
        st = State()
        st.world = clone(world if world is not None else self.world, {})
        st.world.readonly = readonly
        st.world.log = []
        st.world.ties_mark = len(st.world.ties)      # roundings of earlier requests of a history stay recorded, this request's start here
        st.pc = list(pc if pc is not None else self.assume)
        out = Cell()
        eng.body(fn)
        eng.functions_entered.add(fn)
        st.frames.append(Frame(eng.items[fn][0], fn, args, (out, [])))
        for fin in eng.run(st, max_paths=max_paths):
            if fin.outcome[0] == 'infeasible':
                continue
            yield fin

    def execute(self, msg, nfunds=0, **kw):
        return self.run_entry('execute', [self.deps(), self.env(), self.info(nfunds), msg], **kw)


class Path:
    """summary of one finished path"""
    __slots__ = ('pc', 'kind', 'err', 'resp', 'world', 'raw', 'detail')

    def __init__(self, fin):
        self.pc = fin.pc
        self.world = fin.world
        self.raw = fin.outcome
        self.resp = None
        self.err = None
        self.detail = None
        o = fin.outcome
        if o[0] == 'return':
            r = o[1]
            if isinstance(r, Adt) and r.ty == 'Result':
                if r.variant == 'Ok':
                    self.kind, self.resp = 'ok', r.fields[0]
                else:
                    self.kind, self.err = 'err', r.fields[0]
                    e = r.fields[0]
                    self.detail = (e.variant or e.ty) if isinstance(e, Adt) else str(e)
            else:
                self.kind, self.resp = 'ok', r
        elif o[0] == 'panic':
            self.kind, self.detail = 'panic', ' '.join(str(x) for x in o[1:])
        elif o[0] == 'oob':
            self.kind, self.detail = 'oob', ' '.join(str(x) for x in o[1:])
        else:
            self.kind, self.detail = o[0], ' '.join(str(x) for x in o[1:])

    @property
    def messages(self):
        return self.resp.fields[0] if self.kind == 'ok' and isinstance(self.resp, Adt) and self.resp.ty == 'Response' else []

    @property
    def attributes(self):
        return self.resp.fields[1] if self.kind == 'ok' and isinstance(self.resp, Adt) and self.resp.ty == 'Response' else []

    def writes(self):
        return [l for l in self.world.log if l[0] in ('save', 'remove')]
