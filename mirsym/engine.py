"""mirsym engine: path-wise symbolic execution of rustc MIR bodies (text form) with z3.

Structure is concrete (structs, enum variants, Vec lengths), scalars are z3 terms.
Branch pruning uses a linear abstraction of the path condition (sound over-approximation of
feasibility); property obligations are decided elsewhere on the exact path condition.
"""
import re, time, itertools, collections, glob, os
import z3
from . import mirparse as mp

StrS = z3.DeclareSort('Str')
_lits = {}
_lit_names = {}


def lit(s):
    """string literal -> distinct constant of sort Str"""
    if s not in _lits:
        c = z3.Const('lit!%d' % len(_lits), StrS)
        _lits[s] = c
        _lit_names[c.get_id()] = s
    return _lits[s]


def lit_value(t):
    """python string if t is a literal constant else None"""
    if isinstance(t, z3.ExprRef):
        for s, c in _lits.items():
            if z3.eq(c, t):
                return s
    return None


def all_lits():
    return dict(_lits)


EMPTY = lit('')

# string fact functions (uninterpreted)
f_uuid_ok = z3.Function('uuid_ok', StrS, z3.BoolSort())          # Uuid::parse_str succeeds
f_uuid_hyph = z3.Function('uuid_hyph', StrS, StrS)               # canonical hyphenated text of its value
f_dec_ok = z3.Function('dec_ok', StrS, z3.BoolSort())            # Decimal::from_str succeeds
f_dec_n = z3.Function('dec_n', StrS, z3.IntSort())               # signed value of the text times the common denominator 10^k
_DEC_T = [10 ** 3]


def set_dec_scale(k):
    """all decimal texts inside the bounds have at most k fractional digits: values are carried as integers over the common denominator 10^k"""
    _DEC_T[0] = 10 ** k


def dec_T():
    return _DEC_T[0]


def f_dec_d(s):
    """common denominator of every parsed decimal (a constant): dec value of string s is dec_n(s) / 10^k"""
    return z3.IntVal(_DEC_T[0])
f_addr_ok = z3.Function('addr_ok', StrS, z3.BoolSort())          # Api::addr_validate succeeds
f_marker_found = z3.Function('marker_found', StrS, z3.BoolSort())
f_marker_dec = z3.Function('marker_decodes', StrS, z3.BoolSort())
f_marker_type = z3.Function('marker_type', StrS, z3.IntSort())
f_marker_status = z3.Function('marker_status', StrS, z3.IntSort())      # MarkerStatus: 3 = Active
f_dec_scale = z3.Function('dec_scale', StrS, z3.IntSort())            # number of fractional digits the text is written with
f_dec_canon = z3.Function('dec_is_canonical', StrS, z3.BoolSort())    # the text is what Decimal::to_string prints for its value
f_uuid_nil = z3.Function('uuid_is_nil', StrS, z3.BoolSort())
f_attr_ok = z3.Function('attr_query_ok', StrS, z3.BoolSort())    # attribute query succeeds for account
f_has_attr = z3.Function('has_attr', StrS, StrS, z3.BoolSort())  # account holds attribute name
f_sv_ok = z3.Function('semver_ok', StrS, z3.BoolSort())
f_sv_maj = z3.Function('semver_major', StrS, z3.IntSort())
f_sv_min = z3.Function('semver_minor', StrS, z3.IntSort())
f_sv_pat = z3.Function('semver_patch', StrS, z3.IntSort())
f_sv_pre = z3.Function('semver_has_pre', StrS, z3.BoolSort())
f_numstr = z3.Function('numstr', z3.IntSort(), StrS)             # u128::to_string


class Cell:
    __slots__ = ('v',)

    def __init__(self, v=None):
        self.v = v


class BoxCell(Cell):
    __slots__ = ()


class Adt:
    __slots__ = ('ty', 'variant', 'fields')

    def __init__(self, ty, variant, fields):
        self.ty, self.variant, self.fields = ty, variant, fields

    def __repr__(self):
        return '%s::%s%r' % (self.ty, self.variant, self.fields) if self.variant else '%s%r' % (self.ty, self.fields)


class Ref:
    __slots__ = ('cell', 'path')

    def __init__(self, cell, path):
        self.cell, self.path = cell, path

    def __repr__(self):
        return 'Ref(%r)' % (self.path,)


class Opaque:
    """opaque token (zero-sized closures, fn items, produced text such as NumStr/DecStr/Json/Fmt)"""
    __slots__ = ('tag', 'a')

    def __init__(self, tag, *a):
        self.tag, self.a = tag, a

    def __repr__(self):
        return 'Opaque(%s%s)' % (self.tag, (',' + ','.join(map(str, self.a))) if self.a else '')


class Unsupported(Exception):
    pass


class Frame:
    __slots__ = ('body', 'bb', 'idx', 'ret', 'locals', 'name')

    def __init__(self, body, name, args, ret):
        self.body, self.name, self.bb, self.idx, self.ret = body, name, 'bb0', 0, ret
        self.locals = {}
        for i, a in enumerate(args):
            self.locals[i + 1] = Cell(a)


def clone(v, memo):
    """structure-preserving deep copy; z3 terms, python scalars and Opaque are atoms."""
    if isinstance(v, (z3.AstRef, int, str, bool, type(None), Opaque)):
        return v
    k = id(v)
    if k in memo:
        return memo[k]
    if isinstance(v, Cell):
        c = type(v)()
        memo[k] = c
        c.v = clone(v.v, memo)
        return c
    if isinstance(v, Adt):
        a = Adt(v.ty, v.variant, None)
        memo[k] = a
        a.fields = [clone(x, memo) for x in v.fields]
        return a
    if isinstance(v, Ref):
        r = Ref(None, v.path)
        memo[k] = r
        r.cell = clone(v.cell, memo)
        return r
    if isinstance(v, list):
        l = []
        memo[k] = l
        l.extend(clone(x, memo) for x in v)
        return l
    if isinstance(v, dict):
        d = {}
        memo[k] = d
        for a, b in v.items():
            d[a] = clone(b, memo)
        return d
    if isinstance(v, tuple):
        return tuple(clone(x, memo) for x in v)
    if isinstance(v, Frame):
        f = Frame.__new__(Frame)
        memo[k] = f
        f.body, f.name, f.bb, f.idx, f.ret = v.body, v.name, v.bb, v.idx, clone(v.ret, memo)
        f.locals = clone(v.locals, memo)
        return f
    if hasattr(v, 'clone_into'):
        return v.clone_into(memo)
    raise TypeError(type(v))


class State:
    def __init__(self):
        self.frames, self.pc, self.world, self.outcome = [], [], None, None
        self.trace = []          # names of crate functions entered (for evidence)

    def fork(self, keep_memo=False):
        memo = {}
        s = State()
        s.frames = clone(self.frames, memo)
        s.pc = list(self.pc)
        s.world = clone(self.world, memo) if self.world is not None else None
        s.outcome = self.outcome
        s.trace = self.trace       # shared, append-only set semantics not needed per path
        # original object id -> its copy: lets a value computed before the fork be re-bound to the copy's objects.  Only valid while the
        # originals are alive, i.e. right after the fork: the caller that asked for it drops it again (a stale memo would map recycled ids)
        s.fork_memo = memo if keep_memo else None
        return s


PUSHED = object()


def strip_generics(s):
    """remove ::<...> turbofish groups (bracket-aware)."""
    out, i, n = [], 0, len(s)
    while i < n:
        if s.startswith('::<', i) and not s.startswith('::<impl ', i):
            j = mp.match_close(s, i + 2)
            i = j + 1
            continue
        out.append(s[i])
        i += 1
    return ''.join(out)


def PANIC(*a):
    return Opaque('PANIC', *a)


def some(v):
    return Adt('Option', 'Some', [v])


def NONE():
    return Adt('Option', 'None', [])


def ok(v):
    return Adt('Result', 'Ok', [v])


def err(v):
    return Adt('Result', 'Err', [v])


def unit():
    return Adt('tuple', None, [])


def U(v):
    if isinstance(v, int):
        v = z3.IntVal(v)
    return Adt('Uint128', None, [v])


def Dec(n, d, inexact=False, src=None, factors=None, scale=None):
    """value n/d; inexact: went through the 28-digit quotient; src: the string it was parsed from (for to_string);
    factors: (a, f, q) when the value was formed as (a/q)*f from integers (the pro-rata shape), for the oracles' witness matching"""
    return Adt('Decimal', None, [n, d, inexact, src, factors, scale])      # scale: rust_decimal's own scale of the value (Int term) when known


def Addr(s):
    return Adt('Addr', None, [s])


def Coin(denom, amount):
    return Adt('Coin', None, [denom, U(amount) if not isinstance(amount, Adt) else amount])


class TypeInfo:
    """struct field order / enum variant order, read from /repo/src on every run plus a fixed table for dependency types."""
    EXTERNAL_ENUMS = {
        'Option': ['None', 'Some'], 'Result': ['Ok', 'Err'], 'ControlFlow': ['Continue', 'Break'],
        'RoundingStrategy': ['MidpointNearestEven', 'MidpointAwayFromZero', 'MidpointTowardZero', 'ToZero', 'AwayFromZero',
                             'ToNegativeInfinity', 'ToPositiveInfinity', 'BankersRounding', 'RoundHalfUp', 'RoundHalfDown', 'RoundDown', 'RoundUp'],
        'BankMsg': ['Send', 'Burn'],
        'Order': ['Ascending', 'Descending'], 'Ordering': ['Less', 'Equal', 'Greater'],
        'CosmosMsg': ['Bank', 'Custom', 'Staking', 'Distribution', 'Stargate', 'Any', 'Ibc', 'Wasm', 'Gov'],
        'StdError': ['VerificationErr', 'RecoverPubkeyErr', 'GenericErr', 'InvalidBase64', 'InvalidDataSize', 'InvalidHex', 'InvalidUtf8',
                     'NotFound', 'ParseErr', 'SerializeErr', 'Overflow', 'DivideByZero', 'ConversionOverflow'],
    }
    EXTERNAL_STRUCTS = {
        'Coin': ['denom', 'amount'],
        'MessageInfo': ['sender', 'funds'],
        'Env': ['block', 'transaction', 'contract'],
        'ContractInfo': ['address'],
        'DepsMut': ['storage', 'api', 'querier'],
        'Deps': ['storage', 'api', 'querier'],
        'Response': ['messages', 'attributes', 'events', 'data'],
        'Attribute': ['key', 'value'],
        'MsgTransferRequest': ['amount', 'administrator', 'from_address', 'to_address'],
        'PbCoin': ['denom', 'amount'],
        'QueryMarkerResponse': ['marker'],
        'QueryAttributesResponse': ['account', 'attributes', 'pagination'],
        'PbAttribute': ['name', 'value', 'attribute_type', 'address', 'expiration_date'],
        'BlockInfoStd': ['height', 'time', 'chain_id'],
    }

    def __init__(self, srcroot):
        self.structs = dict(self.EXTERNAL_STRUCTS)
        self.enums = dict(self.EXTERNAL_ENUMS)
        self.variant_fields = {}          # (enum, variant) -> [field names] for struct-like variants
        for f in sorted(glob.glob(os.path.join(srcroot, 'src', '**', '*.rs'), recursive=True)):
            if os.sep + 'tests' + os.sep in f or f.endswith(os.sep + 'tests.rs'):
                continue
            src = open(f).read()
            src = re.sub(r'//[^\n]*', '', src)
            for m in re.finditer(r'\bstruct (\w+)\s*\{(.*?)\n\}', src, re.S):
                self.structs[m.group(1)] = self._fields(m.group(2))
            for m in re.finditer(r'\benum (\w+)\s*\{(.*?)\n\}', src, re.S):
                name, body = m.group(1), m.group(2)
                body = re.sub(r'#\[[^\]]*\]', '', body)
                variants = []
                i = 0
                # split at top-level commas
                depth, cur = 0, []
                for ch in body:
                    if ch in '{(<[':
                        depth += 1
                    elif ch in '})>]':
                        depth -= 1
                    if ch == ',' and depth == 0:
                        variants.append(''.join(cur).strip())
                        cur = []
                    else:
                        cur.append(ch)
                if ''.join(cur).strip():
                    variants.append(''.join(cur).strip())
                names = []
                for v in variants:
                    vm = re.match(r'^(\w+)\s*(\{(.*)\}|\((.*)\))?\s*$', v, re.S)
                    if not vm:
                        continue
                    names.append(vm.group(1))
                    if vm.group(3) is not None:
                        self.variant_fields[(name, vm.group(1))] = self._fields(vm.group(3))
                self.enums[name] = names

    @staticmethod
    def _fields(body):
        body = re.sub(r'#\[[^\]]*\]', '', body)
        out = []
        depth, cur = 0, []
        for ch in body:
            if ch in '{(<[':
                depth += 1
            elif ch in '})>]':
                depth -= 1
            if ch == ',' and depth == 0:
                out.append(''.join(cur))
                cur = []
            else:
                cur.append(ch)
        out.append(''.join(cur))
        names = []
        for f in out:
            m = re.match(r'^\s*(?:pub(?:\([^)]*\))?\s+)?(\w+)\s*:', f, re.S)
            if m:
                names.append(m.group(1))
        return names

    def mk(self, ty, variant=None, **kw):
        names = self.variant_fields[(ty, variant)] if variant is not None and (ty, variant) in self.variant_fields else (self.structs[ty] if variant is None else [])
        assert set(names) == set(kw), (ty, variant, names, sorted(kw))
        return Adt(ty, variant, [kw[n] for n in names])

    def get(self, adt, name):
        names = self.variant_fields[(adt.ty, adt.variant)] if adt.variant is not None and (adt.ty, adt.variant) in self.variant_fields else self.structs[adt.ty]
        return adt.fields[names.index(name)]

    def set(self, adt, name, val):
        names = self.variant_fields[(adt.ty, adt.variant)] if adt.variant is not None and (adt.ty, adt.variant) in self.variant_fields else self.structs[adt.ty]
        adt.fields[names.index(name)] = val


class Engine:
    def __init__(self, mirtext, srcroot, models):
        self.text = mirtext
        self.items = mp.parse_items(mirtext)
        self.srcroot = srcroot
        self.ti = TypeInfo(srcroot)
        self.parsed = {}
        self.models = models                 # list of (compiled regex, fn)
        self.model_cache = {}
        self.solver = z3.Solver()
        self.solver.set('timeout', 5000)
        self.nchecks = 0
        self.tcheck = 0.0
        self.nunknown = 0
        self.fresh = itertools.count()
        self.functions_entered = set()
        self.models_used = collections.Counter()
        self._abs_cache = {}
        self._euclid = {}
        self._round = {}
        self.bounds = {}                      # str(term) -> (lo, hi) integer intervals for scenario symbols
        self.const_cache = {}
        self.oneline_consts = {}
        for m in re.finditer(r'^const ([\w:<> ]+?): [^=\n]+ = const (.*);$', mirtext, re.M):
            self.oneline_consts[m.group(1).strip()] = m.group(2)
        self.serde_rename = {}
        for f in sorted(glob.glob(os.path.join(srcroot, 'src', '**', '*.rs'), recursive=True)):
            for m in re.finditer(r'#\[serde\(rename_all = "(\w+)"\)\]\s*(?:#\[[^\]]*\]\s*)*pub (?:enum|struct) (\w+)', open(f).read()):
                self.serde_rename[m.group(2)] = m.group(1)
        self.index_impls()

    # ---- resolution of crate-local functions ----
    def index_impls(self):
        self.by_last = collections.defaultdict(list)
        self.closures = {}
        for name, bodies in self.items.items():
            if bodies[0].kind != 'fn':
                continue
            last = name.rsplit('::', 1)[-1] if not name.endswith('}') else name
            self.by_last[last].append(name)
            m = re.search(r'_1: (?:&mut |&)?(\{closure@[^}]*\})', bodies[0].sig)
            if m:
                self.closures[m.group(1)] = name

    def body(self, name, b=None):
        b = b or self.items[name][0]
        if b.sig not in self.parsed:
            self.parsed[b.sig] = {bb: [mp.parse_stmt(s) for s in st] for bb, st in b.blocks.items()}
        return b

    def lookup_local(self, name):
        """crate-local body for a (generics-stripped) callee string, or None."""
        m = re.match(r'^<(.+) as (.+)>::(\w+)$', name)
        if m:
            selfty, trait, meth = m.group(1).lstrip('&'), m.group(2), m.group(3)
            short = selfty.split('::')[-1]
            if meth == 'default' and trait == 'Default':
                # derived / hand-written Default of a crate type: the body that returns that type
                for n in self.by_last.get('default', []):
                    if re.search(r'\) -> (\w+::)*%s\s*$' % re.escape(short), self.items[n][0].sig.strip().rstrip('{').strip()):
                        return n
                return None
            if meth in ('clone', 'eq', 'ne', 'to_owned', 'fmt', 'default'):
                return None                                   # derived impls: structural models
            for n in self.by_last.get(meth, []):
                sig = self.items[n][0].sig
                if 'impl at' in n and re.search(r'_1: &?(mut )?(\w+::)*%s[,)]' % re.escape(short), sig):
                    return n
            if trait.startswith('From<') and meth == 'from':
                srcty = strip_generics(trait[5:-1]).split('::')[-1]
                for n in self.by_last.get('from', []):
                    sig = self.items[n][0].sig
                    if re.search(r'_1: (\w+::)*%s\) -> (\w+::)*%s ' % (re.escape(srcty), re.escape(short)), sig):
                        return n
            if trait.startswith('Into<'):
                tgt = strip_generics(trait[5:-1]).split('::')[-1]
                for n in self.by_last.get('from', []):
                    sig = self.items[n][0].sig
                    if re.search(r'_1: (\w+::)*%s\) -> (\w+::)*%s ' % (re.escape(short), re.escape(tgt)), sig):
                        return n
            return None
        last = name.rsplit('::', 1)[-1]
        if name in self.items and self.items[name][0].kind == 'fn':
            return name
        cands = self.by_last.get(last, [])
        if '::' in name:
            ty = name.rsplit('::', 2)[-2]
            for n in cands:
                sig = self.items[n][0].sig
                if 'impl at' in n and re.search(r'_1: &?(mut )?(\w+::)*%s[,)]' % re.escape(ty), sig):
                    return n
                if n == name or n.endswith('::' + name) or name.endswith('::' + n):
                    return n
            # associated function without a receiver (`Type::make()`): the inherent-impl body that returns or takes the type
            hits = [n for n in cands if 'impl at' in n and 'closure' not in n and re.search(r'\b%s\b' % re.escape(ty), self.items[n][0].sig)]
            if len(hits) == 1:
                return hits[0]
            if not hits and (ty in self.ti.structs or ty in self.ti.enums) and ty not in TypeInfo.EXTERNAL_STRUCTS and ty not in TypeInfo.EXTERNAL_ENUMS:
                allc = [n for n in cands if 'impl at' in n and 'closure' not in n]
                if len(allc) == 1:
                    return allc[0]
            return None
        return cands[0] if len(cands) == 1 and 'impl at' not in cands[0] else None

    # ---- linear abstraction for pruning ----
    UF_MUL = z3.Function('mulUF', z3.IntSort(), z3.IntSort(), z3.IntSort())
    UF_MOD = z3.Function('modUF', z3.IntSort(), z3.IntSort(), z3.IntSort())
    UF_DIV = z3.Function('divUF', z3.IntSort(), z3.IntSort(), z3.IntSort())

    def abstract(self, e):
        if not isinstance(e, z3.ExprRef):
            return e
        k = e.get_id()
        hit = self._abs_cache.get(k)
        if hit is not None:
            return hit[1]
        if z3.is_app(e) and e.num_args() > 0:
            ch = [self.abstract(c) for c in e.children()]
            kind = e.decl().kind()
            if kind == z3.Z3_OP_MUL:
                consts = [c for c in ch if z3.is_int_value(c)]
                syms = [c for c in ch if not z3.is_int_value(c)]
                if len(syms) >= 2:
                    syms.sort(key=lambda t: t.get_id())
                    acc = syms[0]
                    for t in syms[1:]:
                        acc = self.UF_MUL(acc, t)
                    r = acc
                    for c in consts:
                        r = c * r
                else:
                    r = e.decl()(*ch)
            elif kind in (z3.Z3_OP_MOD, z3.Z3_OP_REM) and not z3.is_int_value(ch[1]):
                r = self.UF_MOD(ch[0], ch[1])
            elif kind in (z3.Z3_OP_IDIV, z3.Z3_OP_DIV) and not z3.is_int_value(ch[1]):
                r = self.UF_DIV(ch[0], ch[1])
            else:
                r = e.decl()(*ch)
        else:
            r = e
        self._abs_cache[k] = (e, r)      # keep e alive: ids are recycled after GC
        return r

    def feasible(self, st, cond):
        if z3.is_true(cond):
            return True
        if z3.is_false(cond):
            return False
        t = time.time()
        self.nchecks += 1
        r = self.solver.check(*[self.abstract(c) for c in st.pc + [cond]])
        dt = time.time() - t
        self.tcheck += dt
        if r == z3.unknown:
            self.nunknown += 1
        return r != z3.unsat

    # ---- interval bounds (static, for exactness side conditions of Decimal ops) ----
    def set_bound(self, term, lo, hi):
        self.bounds[term.get_id()] = (term, lo, hi)

    def interval(self, t):
        """(lo, hi) python ints bounding the Int term t, or None if unknown."""
        if isinstance(t, int):
            return (t, t)
        if z3.is_int_value(t):
            v = t.as_long()
            return (v, v)
        b = self.bounds.get(t.get_id())
        if b is not None and z3.eq(b[0], t):
            return (b[1], b[2])
        if not z3.is_app(t):
            return None
        k = t.decl().kind()
        ch = t.children()
        if k == z3.Z3_OP_ADD:
            iv = [self.interval(c) for c in ch]
            if any(i is None for i in iv):
                return None
            return (sum(i[0] for i in iv), sum(i[1] for i in iv))
        if k == z3.Z3_OP_SUB:
            iv = [self.interval(c) for c in ch]
            if any(i is None for i in iv):
                return None
            lo, hi = iv[0]
            for i in iv[1:]:
                lo, hi = lo - i[1], hi - i[0]
            return (lo, hi)
        if k == z3.Z3_OP_UMINUS:
            i = self.interval(ch[0])
            return None if i is None else (-i[1], -i[0])
        if k == z3.Z3_OP_MUL:
            iv = [self.interval(c) for c in ch]
            if any(i is None for i in iv):
                return None
            lo, hi = iv[0]
            for i in iv[1:]:
                c = [lo * i[0], lo * i[1], hi * i[0], hi * i[1]]
                lo, hi = min(c), max(c)
            return (lo, hi)
        if k == z3.Z3_OP_ITE:
            a, b = self.interval(ch[1]), self.interval(ch[2])
            if a is None or b is None:
                return None
            return (min(a[0], b[0]), max(a[1], b[1]))
        return None

    def range_fact(self, st, t):
        """add the interval of a nonlinear term as an explicit (implied) fact so the linear pruning tier can use it"""
        if not isinstance(t, z3.ExprRef) or z3.is_int_value(t):
            return
        iv = self.interval(t)
        if iv is None:
            return
        f = z3.And(t >= iv[0], t <= iv[1])
        k = ('rf', t.get_id())
        if k in self._abs_cache and any(z3.eq(f, p) for p in st.pc[-30:]):
            return
        self._abs_cache[k] = (t, None)
        st.pc.append(f)

    # ---- places ----
    def resolve(self, st, fr, place):
        """-> (cell, path) with derefs followed."""
        cell = fr.locals.get(place.local)
        if cell is None:
            cell = fr.locals[place.local] = Cell()
        path = []
        for p in place.proj:
            if p[0] == 'deref':
                v = self.read(cell, path)
                if isinstance(v, Ref):
                    cell, path = v.cell, list(v.path)
                elif isinstance(v, Adt) and v.ty == 'Box' and isinstance(v.fields[0], Ref):
                    cell, path = v.fields[0].cell, list(v.fields[0].path)
                else:
                    cell, path = Cell(v), []        # &str / &[u8] / values modelled by value
            elif p[0] == 'field':
                if isinstance(cell, BoxCell):
                    continue      # MaybeUninit/ManuallyDrop/MaybeDangling wrappers of the vec! lowering
                path = path + [p[1]]
            elif p[0] == 'downcast':
                path = path + [('as', p[1])]
            elif p[0] == 'index':
                iv = self.read(*self.resolve(st, fr, mp.parse_place(p[1])))
                if isinstance(iv, z3.ExprRef):
                    iv = z3.simplify(iv)
                    if not z3.is_int_value(iv):
                        raise Unsupported('symbolic index')
                    iv = iv.as_long()
                path = path + [('idx', iv)]
            else:
                raise Unsupported('proj %r' % (p,))
        return cell, path

    def read(self, cell, path):
        v = cell.v
        for p in path:
            if isinstance(p, tuple):
                if p[0] == 'as':       # downcast: no-op (variant already concrete)
                    if isinstance(v, Adt) and v.variant is not None and v.variant != p[1]:
                        raise Unsupported('downcast %s of %r' % (p[1], v))
                    continue
                if p[0] == 'idx':
                    v = v[p[1]]
                    continue
            if isinstance(v, Adt) and v.ty == 'Box':
                v = v.fields[0]
                continue   # Box.0 (Unique) -> pointer
            if isinstance(v, Ref) and isinstance(v.cell, BoxCell):
                continue                    # Unique.0 (NonNull) -> same pointer
            if not isinstance(v, Adt):
                raise Unsupported('field %r of %r' % (p, v))
            v = v.fields[p]
        return v

    def write(self, cell, path, val):
        real = [p for p in path if not (isinstance(p, tuple) and p[0] == 'as')]
        if not real:
            cell.v = val
            return
        v = cell.v
        for p in real[:-1]:
            v = v[p[1]] if isinstance(p, tuple) else v.fields[p]
        last = real[-1]
        if isinstance(last, tuple):
            v[last[1]] = val
        else:
            v.fields[last] = val

    def operand(self, st, fr, op):
        if op.kind in ('copy', 'move'):
            cell, path = self.resolve(st, fr, op.val)
            v = self.read(cell, path)
            return clone(v, {}) if op.kind == 'copy' and isinstance(v, (Adt, list)) else v
        if op.kind == 'fnitem':
            return Opaque('fn', op.val)
        return self.const(st, op.val)

    def const(self, st, c):
        if c in ('true', 'false'):
            return z3.BoolVal(c == 'true')
        m = re.match(r'^(-?\d+)_(u|i)(8|16|32|64|128|size)$', c)
        if m:
            return z3.IntVal(int(m.group(1)))
        if c.startswith('"'):
            return lit(eval(c))
        if c.startswith('b"'):
            return Opaque('bytes', c)          # format_args! templates
        if c == '()':
            return unit()
        if c.startswith('ZeroSized'):
            return Opaque('zst', c)
        if c in self.const_cache:
            return clone(self.const_cache[c], {})
        cs = strip_generics(c)
        known = {'Decimal::ZERO': lambda: Dec(z3.IntVal(0), z3.IntVal(1)), 'Decimal::ONE': lambda: Dec(z3.IntVal(1), z3.IntVal(1)),
                 'Decimal::TEN': lambda: Dec(z3.IntVal(10), z3.IntVal(1)), 'Decimal::ONE_HUNDRED': lambda: Dec(z3.IntVal(100), z3.IntVal(1)),
                 'Uint128::MAX': lambda: U(2 ** 128 - 1), 'u128::MAX': lambda: z3.IntVal(2 ** 128 - 1), 'u64::MAX': lambda: z3.IntVal(2 ** 64 - 1),
                 'u32::MAX': lambda: z3.IntVal(2 ** 32 - 1), 'Uint128::zero': None}
        for k_, mk_ in known.items():
            if mk_ is not None and (cs == k_ or cs.endswith('::' + k_)):
                return mk_()
        name = c
        cand = [n for n in self.items if self.items[n][0].kind in ('const', 'static') and (n == name or name.endswith('::' + n) or n.endswith('::' + name))]
        if cand:
            v = self.run_const(st, max(cand, key=len))
            self.const_cache[c] = v
            return clone(v, {})
        for n, val in self.oneline_consts.items():
            if n == name or name.endswith('::' + n) or n.endswith('::' + name.rsplit('::', 1)[-1]):
                return self.const(st, val)
        mk = re.search(r'MarkerType::(\w+)::\{constant#0\}$', name)
        if mk and mk.group(1) in ('Unspecified', 'Coin', 'Restricted'):
            return z3.IntVal({'Unspecified': 0, 'Coin': 1, 'Restricted': 2}[mk.group(1)])      # prost enum discriminants of the marker module
        raise Unsupported('const ' + c)

    def run_const(self, st, name):
        sub = State()
        sub.pc = list(st.pc)
        sub.world = None
        out = Cell()
        self.body(name)
        sub.frames.append(Frame(self.items[name][0], name, [], (out, [])))
        res = [r for r in self.run(sub) if r.outcome[0] != 'infeasible']
        assert len(res) == 1, 'forking const ' + name
        return out.v

    # ---- main loop: yields finished states ----
    def run(self, st0, max_paths=200000):
        work = [st0]
        npaths = 0
        while work:
            st = work.pop()
            while True:
                if st.outcome is not None or not st.frames:
                    npaths += 1
                    if npaths > max_paths:
                        raise Unsupported('path budget exceeded')
                    yield st
                    break
                fr = st.frames[-1]
                stmts = self.parsed[fr.body.sig][fr.bb]
                s = stmts[fr.idx]
                if isinstance(s, mp.Stmt):
                    fr.idx += 1
                    if s.kind == 'assign':
                        val = self.rvalue(st, fr, s.b)
                        if isinstance(val, Adt) and val.variant is None and not val.fields and s.b.kind == 'adt' and not s.a.proj:
                            # bare unit variant (e.g. `_26 = MidpointAwayFromZero;`): the enum is the declared type of the destination
                            dty = strip_generics(fr.body.locals.get(s.a.local, '')).split('::')[-1]
                            if dty in self.ti.enums and val.ty in self.ti.enums[dty]:
                                val = Adt(dty, val.ty, [])
                        cell, path = self.resolve(st, fr, s.a)
                        self.write(cell, path, val)
                    elif s.kind == 'setdiscr':
                        raise Unsupported('SetDiscriminant')
                    continue
                k = s.kind
                if k == 'goto':
                    fr.bb, fr.idx = s.data, 0
                elif k == 'drop':
                    fr.bb, fr.idx = s.data[1]['return'], 0
                elif k == 'return':
                    ret = fr.locals[0].v if 0 in fr.locals else None
                    st.frames.pop()
                    if fr.ret is not None:
                        cell, path = fr.ret
                        self.write(cell, path, ret)
                    if not st.frames:
                        st.outcome = ('return', ret)
                elif k == 'unreachable':
                    st.outcome = ('unreachable', fr.name, fr.bb)
                elif k == 'resume':
                    st.outcome = ('panic', 'resume')
                elif k == 'switch':
                    op, arms = s.data
                    v = self.operand(st, fr, op)
                    if isinstance(v, int):
                        v = z3.IntVal(v)
                    if z3.is_bool(v):
                        v = z3.simplify(v)
                        if z3.is_true(v) or z3.is_false(v):
                            v = z3.IntVal(1 if z3.is_true(v) else 0)
                    else:
                        v = z3.simplify(v)
                    succ = []
                    if z3.is_bool(v):
                        # arms: 0 -> false target, otherwise / 1 -> true target
                        f_t = arms.get('0')
                        t_t = arms.get('1', arms.get('otherwise'))
                        if f_t is None:
                            f_t = arms.get('otherwise')
                        succ = [(z3.Not(v), f_t), (v, t_t)]
                        live = [(c, t) for c, t in succ if self.feasible(st, c)]
                        sym = True
                    elif z3.is_int_value(v):
                        key = str(v.as_long())
                        tgt = arms.get(key, arms.get('otherwise'))
                        live = [(None, tgt)]
                        sym = False
                    else:
                        others = []
                        for key, tgt in arms.items():
                            if key == 'otherwise':
                                continue
                            others.append(v != int(key))
                            succ.append((v == int(key), tgt))
                        if 'otherwise' in arms:
                            succ.append((z3.And(*others) if others else z3.BoolVal(True), arms['otherwise']))
                        live = [(c, t) for c, t in succ if self.feasible(st, c)]
                        sym = True
                    if not live:
                        st.outcome = ('infeasible',)
                        continue
                    for c, t in live[1:]:
                        s2 = st.fork()
                        s2.pc.append(c)
                        f2 = s2.frames[-1]
                        f2.bb, f2.idx = t, 0
                        work.append(s2)
                    c, t = live[0]
                    if sym:
                        st.pc.append(c)
                    fr.bb, fr.idx = t, 0
                elif k == 'assert':
                    neg, op, msg, tg = s.data
                    v = self.operand(st, fr, op)
                    okc = z3.simplify(z3.Not(v) if neg else v)
                    if z3.is_true(okc):
                        fr.bb, fr.idx = tg['success'], 0
                    else:
                        if self.feasible(st, z3.Not(okc)):
                            s2 = st.fork()
                            s2.pc.append(z3.Not(okc))
                            s2.outcome = ('panic', 'assert:' + msg[:60], fr.name)
                            work.append(s2)
                        if self.feasible(st, okc):
                            st.pc.append(okc)
                            fr.bb, fr.idx = tg['success'], 0
                        else:
                            st.outcome = ('infeasible',)
                elif k == 'call':
                    dest, callee, args, tg = s.data
                    argv = [self.operand(st, fr, a) for a in args]
                    retbb = tg.get('return')
                    destptr = self.resolve(st, fr, dest) if dest is not None else None
                    if retbb is None:
                        # diverging call (panic)
                        cs = callee if isinstance(callee, str) else '<indirect>'
                        st.outcome = ('panic', 'diverging:' + strip_generics(cs)[:80], fr.name)
                        continue
                    cur = (fr.bb, fr.idx)
                    fr.bb, fr.idx = retbb, 0
                    try:
                        r = self.call(st, fr, callee, argv, destptr, cur)
                    except Unsupported as e_:
                        if ' [in ' not in str(e_):
                            raise Unsupported('%s [in %s %s]' % (e_, fr.name, cur[0]))
                        raise
                    if r is PUSHED:
                        continue
                    outs = []
                    for o in r:
                        c, v, eff = o if len(o) == 3 else (o[0], o[1], None)
                        if c is True:
                            outs.append((c, v, eff))
                        else:
                            c = z3.simplify(c)
                            if z3.is_true(c):
                                outs.append((True, v, eff))
                            elif not z3.is_false(c) and self.feasible(st, c):
                                outs.append((c, v, eff))
                    if not outs:
                        st.outcome = ('infeasible',)
                        continue
                    st.fork_memo = None
                    for c, v, eff in outs[1:]:
                        s2 = st.fork(keep_memo=True)
                        if c is not True:
                            s2.pc.append(c)
                        if eff is not None:
                            eff(s2)
                        # a returned value may point into the caller's state (`find` handing out an element): re-bind it to the copy
                        self.finish_call(s2, s2.frames[-1], dest, clone(v, s2.fork_memo))
                        s2.fork_memo = None
                        work.append(s2)
                    c, v, eff = outs[0]
                    if c is not True:
                        st.pc.append(c)
                    if eff is not None:
                        eff(st)
                    self.finish_call(st, fr, dest, v)
                else:
                    raise Unsupported('term ' + k)

    def finish_call(self, st, fr, dest, v):
        if isinstance(v, Opaque) and v.tag == 'PANIC':
            st.outcome = ('panic',) + tuple(str(x) for x in v.a) + (fr.name,)
            return
        if isinstance(v, Opaque) and v.tag == 'OOB':
            st.outcome = ('oob',) + tuple(str(x) for x in v.a)
            return
        if dest is not None:
            cell, path = self.resolve(st, fr, dest)
            self.write(cell, path, v)

    # ---- rvalues ----
    def rvalue(self, st, fr, rv):
        k, a = rv.kind, rv.args
        if k == 'use':
            return self.operand(st, fr, a[0])
        if k == 'ref' or k == 'rawref':
            cell, path = self.resolve(st, fr, a[1])
            return Ref(cell, path)
        if k == 'copyforderef':
            cell, path = self.resolve(st, fr, a[0])
            return self.read(cell, path)
        if k == 'discriminant':
            cell, path = self.resolve(st, fr, a[0])
            v = self.read(cell, path)
            if isinstance(v, Adt) and v.variant is not None:
                return z3.IntVal(self.variant_index(v))
            raise Unsupported('discriminant of %r in %s bb%s' % (v, fr.name, fr.bb))
        if k == 'adt':
            path, shape, fields = a
            vals = [self.operand(st, fr, f[1] if shape == 'struct' else f) for f in fields]
            ty, variant = self.split_variant(path)
            return Adt(ty, variant, vals)
        if k == 'tuple':
            return Adt('tuple', None, [self.operand(st, fr, x) for x in a])
        if k == 'array':
            return [self.operand(st, fr, x) for x in a]
        if k == 'closure':
            return Adt(a[0], None, [self.operand(st, fr, f[1]) for f in a[1]])
        if k == 'cast':
            v = self.operand(st, fr, a[0])
            kind = a[2]
            if kind == 'IntToInt':
                tgt = a[1].strip()
                bits = {'u8': 8, 'u16': 16, 'u32': 32, 'u64': 64, 'u128': 128, 'usize': 64}.get(tgt)
                if bits is None:
                    raise Unsupported('cast to ' + tgt)
                iv = self.interval(v) if isinstance(v, z3.ExprRef) else None
                if z3.is_bool(v):
                    return z3.If(v, 1, 0)
                if iv is not None and 0 <= iv[0] and iv[1] < 2 ** bits:
                    return v
                return v % (2 ** bits)
            return v      # Transmute/PtrToPtr/PointerCoercion: identity in this memory model
        if k == 'binop':
            op, x, y = a[0], self.operand(st, fr, a[1]), self.operand(st, fr, a[2])
            return self.binop(st, op, x, y)
        if k == 'unop':
            v = self.operand(st, fr, a[1])
            if a[0] == 'Not':
                if not z3.is_bool(v):
                    raise Unsupported('bitwise not')
                return z3.Not(v)
            if a[0] == 'Neg':
                return -v
            if a[0] == 'PtrMetadata':
                tv = self.deref(v)
                if isinstance(tv, list):
                    return z3.IntVal(len(tv))          # metadata of a slice reference: its length
                raise Unsupported('PtrMetadata of %r' % (type(tv).__name__,))
            raise Unsupported('unop ' + a[0])
        if k == 'len':
            cell, path = self.resolve(st, fr, a[0])
            return z3.IntVal(len(self.read(cell, path)))
        raise Unsupported('rvalue ' + k)

    def binop(self, st, op, x, y):
        if isinstance(x, Adt) or isinstance(y, Adt) or isinstance(x, Ref) or isinstance(y, Ref):
            raise Unsupported('binop %s on %r %r' % (op, x, y))
        if op == 'Eq':
            return x == y
        if op == 'Ne':
            return x != y
        if op == 'Lt':
            return x < y
        if op == 'Le':
            return x <= y
        if op == 'Gt':
            return x > y
        if op == 'Ge':
            return x >= y
        if op in ('Add', 'AddUnchecked'):
            return x + y
        if op in ('Sub', 'SubUnchecked'):
            return x - y
        if op in ('Mul', 'MulUnchecked'):
            return x * y
        if op in ('Rem', 'Div'):
            ys = z3.simplify(y) if isinstance(y, z3.ExprRef) else z3.IntVal(y)
            if z3.is_int_value(ys):
                return x % ys if op == 'Rem' else x / ys
            xs = x if isinstance(x, z3.ExprRef) else z3.IntVal(x)
            q, r = self.euclid(st, xs, y)          # the MIR divide-by-zero assert precedes: y > 0 on this path
            return r if op == 'Rem' else q
        if op == 'BitAnd' and z3.is_bool(x):
            return z3.And(x, y)
        if op == 'BitOr' and z3.is_bool(x):
            return z3.Or(x, y)
        if op == 'BitXor' and z3.is_bool(x):
            return z3.Xor(x, y)
        if op in ('AddWithOverflow', 'SubWithOverflow', 'MulWithOverflow'):
            # width from the declared type of the destination tuple is not needed for this crate: all are u128/usize adds
            r = {'A': x + y, 'S': x - y, 'M': x * y}[op[0]]
            bits = 128
            return Adt('tuple', None, [r, z3.Or(r >= 2 ** bits, r < 0)])
        raise Unsupported('binop ' + op)

    def split_variant(self, path):
        p = strip_generics(path)
        segs = p.split('::')
        enums = self.ti.enums
        if len(segs) >= 2 and segs[-2] in enums and segs[-1] in enums[segs[-2]]:
            return segs[-2], segs[-1]
        return segs[-1], None

    def variant_index(self, v):
        if v.ty == 'Ordering':
            return {'Less': 255, 'Equal': 0, 'Greater': 1}[v.variant]   # i8 discriminants as printed by MIR
        try:
            return self.ti.enums[v.ty].index(v.variant)
        except (KeyError, ValueError):
            raise Unsupported('variant index of %s::%s' % (v.ty, v.variant))

    # ---- calls ----
    def find_from_impl(self, src, tgt):
        """(name, body) of the crate's `impl From<src> for tgt` (several derived impls can share one `impl at` name), or None"""
        src_last, tgt_last = strip_generics(src).split('::')[-1], strip_generics(tgt).split('::')[-1]
        for n in self.by_last.get('from', []):
            for bdy in self.items[n]:
                sm = re.search(r'\(_1: ([^)]*)\) -> ([\w:]+)', bdy.sig)
                if not sm:
                    continue
                a_ty, r_ty = sm.group(1), sm.group(2)
                if r_ty.split('::')[-1] != tgt_last or a_ty.split('::')[-1] != src_last:
                    continue
                if src_last == 'Error' and a_ty.split('::')[0] != src.split('::')[0]:
                    continue
                return n, bdy
        return None

    def from_call(self, name):
        mf = re.match(r'^<(.+) as From<(.+)>>::from$', name)
        if mf:
            return self.find_from_impl(mf.group(2), mf.group(1))
        mi = re.match(r'^<(.+) as Into<(.+)>>::into$', name)
        if mi:
            return self.find_from_impl(mi.group(1), mi.group(2))
        return None

    LOOP_CALLS = re.compile(r'^<.* as Iterator>::(try_for_each|for_each|fold|try_fold)$')

    def loop_call(self, st, fr, kind, callee, argv, cur):
        """`iter.for_each / try_for_each / fold / try_fold(closure)` with a crate closure: the closure runs as a real frame of THIS state, once
        per item (its writes to storage and to captured variables, and its forks, are those of the path); the call statement is
        re-entered after each closure return until the items are used up or the closure breaks out."""
        from . import models as M
        key = ('loop',) + cur
        slot = fr.locals.get(key)
        clo_text = self.closure_text(callee)
        folding = kind in ('fold', 'try_fold')
        if slot is None:
            alts = M._iter_alts(self, st, self.deref(argv[0]))
            acc0, clo0 = (argv[1] if folding else None), (argv[2] if folding else argv[1])
            if len(alts) > 1:
                # the adapter chain can turn out in several ways (forking closures): one path per way, each re-entering this call with its items
                def mk(items_):
                    def eff(st2):
                        memo = getattr(st2, 'fork_memo', None)
                        rb = (lambda v: clone(v, memo)) if memo else (lambda v: v)
                        fr2 = st2.frames[-1]
                        fr2.locals[key] = Cell({'items': [rb(x) for x in items_], 'i': 0, 'acc': rb(acc0), 'clo': rb(clo0), 'out': Cell(), 'fresh': True})
                        fr2.bb, fr2.idx = cur
                    return eff
                return [(c_, unit(), mk(items_)) for c_, items_ in alts]
            items = alts[0][1]
            if alts[0][0] is not True:
                st.pc.append(alts[0][0])
            slot = fr.locals[key] = Cell({'items': list(items), 'i': 0, 'acc': acc0, 'clo': clo0, 'out': Cell()})
        elif slot.v.pop('fresh', False):
            pass                                  # re-entered right after the alternatives were split: no closure has run yet
        else:
            r = slot.v['out'].v
            if kind == 'fold':
                slot.v['acc'] = r
            elif kind in ('try_for_each', 'try_fold'):
                if isinstance(r, Adt) and r.variant in ('Err', 'None', 'Break'):
                    del fr.locals[key]
                    return [(True, r)]
                if kind == 'try_fold':
                    slot.v['acc'] = r.fields[0]
        s = slot.v
        if s['i'] < len(s['items']):
            x = s['items'][s['i']]
            s['i'] += 1
            tgt = self.closures[clo_text]
            self.body(tgt)
            self.functions_entered.add(tgt)
            selfarg = Ref(Cell(s['clo']), []) if re.search(r'_1: &', self.items[tgt][0].sig) else s['clo']
            fr.bb, fr.idx = cur                  # come back to this call when the closure returns
            st.frames.append(Frame(self.items[tgt][0], tgt, [selfarg] + ([s['acc'], x] if folding else [x]), (s['out'], [])))
            return PUSHED
        del fr.locals[key]
        if kind == 'for_each':
            return [(True, unit())]
        if kind == 'fold':
            return [(True, s['acc'])]
        # the Try type the call returns: from the turbofish / closure signature
        tail = callee.split('::try_', 1)[-1]
        sig = self.items[self.closures[clo_text]][0].sig
        rty = sig.rsplit('->', 1)[-1] if '->' in sig else tail
        val = s['acc'] if kind == 'try_fold' else unit()
        if 'ControlFlow' in rty:
            return [(True, Adt('ControlFlow', 'Continue', [val]))]
        if re.search(r'\bOption<', rty) and not re.search(r'\bResult<', rty.split('Option<', 1)[0]):
            return [(True, some(val))]
        return [(True, ok(val))]

    def call(self, st, fr, callee, argv, destptr, cur=None):
        if not isinstance(callee, str):
            raise Unsupported('indirect call')
        name = strip_generics(callee)
        lm = self.LOOP_CALLS.match(name)
        if lm and cur is not None and self.closure_text(callee) in self.closures:
            return self.loop_call(st, fr, lm.group(1), callee, argv, cur)
        mc = re.match(r'^<(\{closure@[^}]*\}) as Fn(?:Mut|Once)?<.*>>::call(?:_mut|_once)?$', name)
        if mc and mc.group(1) in self.closures:
            # a closure bound to a local and called like a function: its body runs as a frame, the argument tuple is spread
            tgt = self.closures[mc.group(1)]
            self.body(tgt)
            self.functions_entered.add(tgt)
            clo = argv[0]
            by_ref = bool(re.search(r'_1: &', self.items[tgt][0].sig))
            if by_ref and not isinstance(clo, Ref):
                clo = Ref(Cell(clo), [])
            if not by_ref and isinstance(clo, Ref):
                clo = self.deref(clo)
            tup = self.deref(argv[1]) if len(argv) > 1 else None
            spread = list(tup.fields) if isinstance(tup, Adt) else []
            st.frames.append(Frame(self.items[tgt][0], tgt, [clo] + spread, destptr))
            return PUSHED
        fi = self.from_call(name)
        if fi is not None:
            n_, b_ = fi
            self.body(n_, b_)
            self.functions_entered.add(n_)
            st.frames.append(Frame(b_, n_, argv, destptr))
            return PUSHED
        hit = self.model_cache.get(name)
        if hit is None:
            tgt = self.lookup_local(name)
            if tgt is not None:
                hit = ('local', tgt)
            else:
                for pat, fn in self.models:
                    m = pat.match(name)
                    if m:
                        hit = ('model', fn, m, pat.pattern)
                        break
                else:
                    raise Unsupported('callee ' + name + '   [' + callee[:160] + ']')
            self.model_cache[name] = hit
        if hit[0] == 'local':
            tgt = hit[1]
            summ = self.summarise(st, tgt, argv)
            if summ is not None:
                return summ
            self.body(tgt)
            self.functions_entered.add(tgt)
            st.frames.append(Frame(self.items[tgt][0], tgt, argv, destptr))
            return PUSHED
        self.models_used[hit[3]] += 1
        return hit[1](self, st, argv, callee, hit[2])

    SUMMARISE = ('is_restricted_marker', 'is_hyphenated_uuid_str', 'is_invalid_price_precision')

    def summarise(self, st, tgt, argv):
        """pure scalar-returning crate functions: run to completion on a side state and merge the paths into one term."""
        if tgt not in self.SUMMARISE:
            return None
        self.body(tgt)
        self.functions_entered.add(tgt)
        sub = State()
        sub.pc = list(st.pc)
        sub.world = st.world          # read-only use
        out = Cell()
        sub.frames.append(Frame(self.items[tgt][0], tgt, [clone(a, {}) for a in argv], (out, [])))
        base = len(st.pc)
        rets, others = [], []
        for fin in self.run(sub):
            if fin.outcome[0] == 'infeasible':
                continue
            delta = fin.pc[base:]
            cond = z3.And(*delta) if delta else z3.BoolVal(True)
            if fin.outcome[0] == 'return' and z3.is_bool(fin.outcome[1]):
                rets.append((cond, fin.outcome[1]))
            else:
                others.append((cond, fin))
        if others:
            # panicking / non-scalar paths: expose them as separate outcomes
            outs = [(c, Opaque('OOB', *f.outcome[1:]) if f.outcome[0] == 'oob' else PANIC('in ' + tgt, f.outcome)) for c, f in others]
            if rets:
                val = z3.simplify(z3.Or(*[z3.And(c, v) for c, v in rets]))
                outs.append((z3.Or(*[c for c, _ in rets]), val))
            return outs
        val = z3.simplify(z3.Or(*[z3.And(c, v) for c, v in rets]))
        return [(True, val)]

    # ---- helpers for models ----
    def deref(self, v):
        while isinstance(v, Ref):
            v = self.read(v.cell, v.path)
        return v

    def call_closure(self, st, clo_text, clo_val, args):
        """run a crate closure to completion; returns list of (cond, value) (forks allowed)."""
        tgt = self.closures[clo_text]
        self.body(tgt)
        self.functions_entered.add(tgt)
        first = self.items[tgt][0].sig
        selfarg = Ref(Cell(clo_val), []) if re.search(r'_1: &', first) else clo_val
        sub = State()
        sub.pc = list(st.pc)
        sub.world = st.world
        out = Cell()
        sub.frames.append(Frame(self.items[tgt][0], tgt, [selfarg] + list(args), (out, [])))
        base = len(st.pc)
        nlog = len(st.world.log) if st.world is not None else 0
        res, wrote = [], False
        for fin in self.run(sub):
            if fin.outcome[0] == 'infeasible':
                continue
            if fin.world is not None and any(e[0] in ('save', 'remove') for e in fin.world.log[nlog:]):
                wrote = True
            delta = fin.pc[base:]
            cond = z3.And(*delta) if delta else True
            if fin.outcome[0] == 'return':
                res.append((cond, fin.outcome[1]))
            else:
                res.append((cond, PANIC('in closure ' + clo_text, fin.outcome)))
        if wrote and len(res) > 1:
            # the value-only protocol of this helper cannot carry per-alternative storage effects: refuse rather than lose them
            raise Unsupported('closure that both forks and writes storage, used through a value-only library model')
        return res

    def call_closure_body(self, st, tgt, args, bdy=None):
        """run crate function `tgt` to completion on a side state (value-only protocol, like call_closure)"""
        bdy = self.body(tgt, bdy)
        self.functions_entered.add(tgt)
        sub = State()
        sub.pc = list(st.pc)
        sub.world = st.world
        out = Cell()
        sub.frames.append(Frame(bdy, tgt, list(args), (out, [])))
        base = len(st.pc)
        nlog = len(st.world.log) if st.world is not None else 0
        res, wrote = [], False
        for fin in self.run(sub):
            if fin.outcome[0] == 'infeasible':
                continue
            if fin.world is not None and any(e[0] in ('save', 'remove') for e in fin.world.log[nlog:]):
                wrote = True
            delta = fin.pc[base:]
            cond = z3.And(*delta) if delta else True
            res.append((cond, fin.outcome[1]) if fin.outcome[0] == 'return' else (cond, PANIC('in ' + tgt, fin.outcome)))
        if wrote and len(res) > 1:
            raise Unsupported('function value that both forks and writes storage, used through a value-only library model')
        return res

    def closure_text(self, callee):
        # the closure passed to THIS call is named in the method's own generic arguments, after `<Self as Trait>::`; closures inside the
        # Self type (`Map<I, {closure}>`) belong to earlier adapters
        depth, cut = 0, -1
        if callee.startswith('<'):
            for i, ch in enumerate(callee):
                if ch == '<':
                    depth += 1
                elif ch == '>' and not callee.startswith('->', i - 1):
                    depth -= 1
                    if depth == 0:
                        cut = i
                        break
        m = re.search(r'(\{closure@[^}]*\})', callee[cut + 1:]) if cut >= 0 else None
        if m is None:
            m = re.search(r'(\{closure@[^}]*\})', callee)
        return m.group(1) if m else None

    def euclid(self, st, n, d):
        """shared Euclidean decomposition n = q*d + r, 0 <= r < d (d > 0) per (n, d) term pair."""
        k = (n.get_id(), d.get_id())
        hit = self._euclid.get(k)
        if hit is None or not (z3.eq(hit[0], n) and z3.eq(hit[1], d)):
            i = next(self.fresh)
            q, r = z3.Int('eq!%d' % i), z3.Int('er!%d' % i)
            hit = self._euclid[k] = (n, d, q, r)
        _, _, q, r = hit
        cons = z3.And(n == q * d + r, r >= 0, r < d)
        if not any(z3.eq(cons, p) for p in st.pc):
            st.pc.append(cons)
            # linear range facts for the pruning tier
            st.pc.append(z3.If(n >= 0, z3.And(q >= 0, q <= n), z3.And(q < 0, q >= n)))
        return q, r
