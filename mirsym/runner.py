"""check driver: MIR generation, parallel exploration of step specs, deciding obligations, native replay, evidence."""
import os, sys, json, time, subprocess, hashlib, glob, traceback, collections, multiprocessing, random, re
import z3

VERIF = os.environ.get('VERIF_OUT') or os.path.dirname(os.path.dirname(os.path.abspath(__file__)))     # evidence / replays / known findings live next to the code
REPO = os.environ.get('VERIF_REPO') or os.environ.get('VP_RUN_REPO') or '/repo'     # the tree under verification (default: /repo's working tree)
CACHE = '/verif/.cache'      # shared cargo build caches (dependency artefacts only; the crate and the MIR are rebuilt on every run)
MIR_TARGET = os.path.join(CACHE, 'mir-target')
ENV = dict(os.environ, CARGO_NET_OFFLINE='true')


def sh(cmd, cwd=None, env=None, timeout=3600):
    p = subprocess.run(cmd, cwd=cwd, env=env or ENV, capture_output=True, text=True, timeout=timeout)
    return p.returncode, p.stdout, p.stderr


def build_mir():
    """regenerate MIR from /repo's current working tree (dependency artefacts are cached, the crate itself is always rebuilt)"""
    t0 = time.time()
    os.makedirs(CACHE, exist_ok=True)
    tgt = MIR_TARGET if os.path.realpath(REPO) == '/repo' else MIR_TARGET + '-' + hashlib.sha256(os.path.realpath(REPO).encode()).hexdigest()[:10]
    env = dict(ENV, CARGO_TARGET_DIR=tgt)
    outdir = os.path.join(CACHE, 'mir')
    os.makedirs(outdir, exist_ok=True)
    out_file = os.path.join(outdir, 'ats_%d.mir' % os.getpid())
    if os.path.exists(out_file):
        os.remove(out_file)
    os.utime(os.path.join(REPO, 'src', 'lib.rs'))          # force rustc to run again even if cargo thinks the crate is fresh
    rc, out, err = sh(['cargo', 'rustc', '--offline', '--lib', '--crate-type', 'rlib', '--', '--emit=mir=' + out_file, '-C', 'debug-assertions=off', '-C', 'overflow-checks=on'], cwd=REPO, env=env)
    if rc != 0 or not os.path.exists(out_file):
        raise RuntimeError('MIR build failed:\n' + err[-3000:])
    text = open(out_file).read()
    os.remove(out_file)
    return text, time.time() - t0


def build_replay():
    t0 = time.time()
    here = os.path.dirname(os.path.dirname(os.path.abspath(__file__)))
    from . import harness as H
    if os.path.realpath(REPO) == '/repo':
        rc, out, err = sh(['bash', os.path.join(here, 'replay', 'build.sh')], cwd=os.path.join(here, 'replay'))
        H.REPLAY_BIN = '/verif/.cache/replay-target/debug/ats-replay'
    else:
        # another tree (scratch worktree, snapshot): a copy of the replay crate whose path dependency points at it, own target dir
        tag = hashlib.sha256(os.path.realpath(REPO).encode()).hexdigest()[:10]
        src = os.path.join(CACHE, 'replay-src-' + tag)
        os.makedirs(os.path.join(src, 'src'), exist_ok=True)
        for f in ('Cargo.lock', os.path.join('src', 'main.rs')):
            open(os.path.join(src, f), 'w').write(open(os.path.join(here, 'replay', f)).read())
        open(os.path.join(src, 'Cargo.toml'), 'w').write(open(os.path.join(here, 'replay', 'Cargo.toml')).read().replace('path = "/repo"', 'path = "%s"' % os.path.realpath(REPO)))
        tgt = os.path.join(CACHE, 'replay-target-' + tag)
        rc, out, err = sh(['cargo', 'build', '--offline'], cwd=src, env=dict(ENV, CARGO_TARGET_DIR=tgt))
        H.REPLAY_BIN = os.path.join(tgt, 'debug', 'ats-replay')
    if rc != 0:
        raise RuntimeError('replay build failed:\n' + err[-3000:])
    return time.time() - t0


# ------------------------------------------------------------------ worker
_W = {}


def _init_worker(mirtext, tier, seed):
    from . import engine as E, models as M, world as W
    _W['eng'] = E.Engine(mirtext, REPO, M.MODELS)
    _W['tier'] = tier
    _W['seed'] = seed
    z3.set_param('smt.random_seed', seed)
    z3.set_param('sat.random_seed', seed)


def finding_signature(prop, obl, kind):
    info = {k: v for k, v in obl.info.items() if k in ('cls', 'fee', 'bidfee', 'order', 'outcome', 'detail', 'mech', 'reqfee')}
    return {'property': prop, 'obligation': obl.name, 'kind': kind, 'info': {k: (str(v) if not isinstance(v, (bool, int, type(None))) else v) for k, v in info.items()}}


def run_history_job(job):
    """bounded model checking along one history template from the empty book: every accepted history, ledger obligations, native replay"""
    from . import world as W, harness as H, steps as ST, props as P
    prop_ids, spec, opts = job
    eng, tier = _W['eng'], _W['tier']
    t0 = time.time()
    label = 'history: ' + spec['name']
    res = {'spec': label, 'kind': 'History', 'paths': collections.Counter(), 'obligations': collections.Counter(), 'violations': [], 'unknown': [],
           'witness': collections.Counter(), 'witness_mismatch': [], 'error': None, 'samples': [], 'ok_reached': 0}
    try:
        bounds = W.Bounds(tier)
        sc, ireq = ST.build_history(eng, bounds, spec)
        c0 = eng.nchecks
        dec = H.Decider(timeout_ms=opts.get('timeout_ms', 20000), seed=_W['seed'], cross_check=opts.get('cross_check', 0))
        per_step = [pid_ for pid_ in prop_ids if spec.get('per_step') and pid_ in P.PROPS]
        if per_step:
            # reached-state templates are a bounded exploration on top of the complete one-step checks: at most this many histories each
            cap = opts.get('history_cap', 600 if tier == 'quick' else 1500)
            trails = list(ST.run_history(sc, spec, ireq, max_paths=cap, final_all=True, truncate=True))
            if sc.shape.get('history_truncated'):
                res['paths']['template_truncated_at_%d_histories' % cap] += 1
        else:
            cap = opts.get('history_cap_full', 1500 if tier == 'quick' else 2000)
            trails = list(ST.run_history(sc, spec, ireq, max_paths=cap, truncate=True))
            if sc.shape.get('history_truncated'):
                res['paths']['template_truncated_at_%d_histories' % cap] += 1
        res['explore_s'] = time.time() - t0
        res['pruning_checks'] = eng.nchecks - c0
        budget = opts.get('witness_per_spec', 12)

        def replay(trail, model):
            req0, funds0, p0 = trail[0]
            step0 = req0.get('step') or {'kind': 'execute', 'sender': req0['sender'], 'funds': funds0, 'msg': req0['msg']}
            scen, c = H.build_replay(sc, model, step0, eng)
            for req, funds, p in trail[1:]:
                if req.get('step'):
                    scen['steps'].append({'kind': req['step']['kind'], 'msg': c.json(req['msg'], eng.ti, eng.serde_rename)})
                    continue
                scen['steps'].append({'kind': 'execute', 'sender': c.term_string(req['sender'], 'sender'), 'funds': [c.json(f, eng.ti, eng.serde_rename) for f in funds],
                                      'msg': c.json(req['msg'], eng.ti, eng.serde_rename)})
            nat = H.run_replay(scen)['steps']
            diffs = []
            for k, ((req, funds, p), n) in enumerate(zip(trail, nat)):
                post = H.storage_json(p.world, c, eng) if k == len(trail) - 1 else None
                diffs += ['step %d: %s' % (k, d) for d in H.compare_replay(H.predicted_result(p, c, eng), post, n)]
            return scen, nat, diffs
        # witnesses spread over the whole list of histories (accepted ones first), not the first few in exploration order
        order_ = sorted(range(len(trails)), key=lambda i_: 0 if trails[i_][-1][2].kind == 'ok' else 1)
        stride_ = max(1, len(order_) // max(1, budget))
        witness_at = set(order_[::stride_][:budget])
        for ti_, trail in enumerate(trails):
            accepted = trail[-1][2].kind == 'ok'
            res['paths']['accepted_history' if accepted else 'history_ending_in_a_refusal'] += 1
            pc = list(trail[-1][2].pc)
            env = H.env_assumptions(sc)
            nice = H.nice_constraints(sc)
            ties = []
            for _, _, p in trail:
                ties += H.no_tie_constraints(p.world)
            hist_obs = [(pid_, ob) for pid_ in prop_ids if accepted and pid_ in P.HISTORY_OBLIGATIONS and not spec.get('per_step') for ob in P.HISTORY_OBLIGATIONS[pid_](sc, trail)]
            if per_step:
                req_l, funds_l, p_l = trail[-1]
                view = ST.HistView(sc, ireq, trail[-2][2].world, funds_l)
                for pid_ in per_step:
                    hist_obs += [(pid_, ob) for ob in P.STEP_PROPS_ON_REACHED_STATES.get(pid_, P.PROPS[pid_])(view, req_l, p_l)]
            for pid_, ob in hist_obs:
                name = pid_ + ':' + ob.name
                r, m = dec.check(pc + env + ob.neg, name)
                res['obligations'][(name, r)] += 1
                if len(res['samples']) < 2 and r == 'unsat':
                    res['samples'].append({'obligation': name, 'history': [q['kind'] for q, _, _ in trail], 'spec': label, 'verdict': 'unsat'})
                if r == 'unknown':
                    res['unknown'].append({'obligation': name, 'spec': label, 'path': 'history'})
                if r == 'sat':
                    sig = {'property': pid_, 'obligation': ob.name, 'kind': 'History', 'info': {'template': spec['name']}}
                    if any(v['signature'] == sig for v in res['violations']):
                        continue
                    r2, m2 = dec.check(pc + env + ob.neg + nice + ties, name + ':nice')
                    if r2 == 'sat':
                        m = m2
                    else:
                        real = []
                        for _, _, p_ in trail:
                            real += H.tie_realising_constraints(p_.world)
                        if real:
                            r3, m3 = dec.check(pc + env + ob.neg + nice + real, name + ':at-a-realisable-tie')
                            if r3 == 'sat':
                                m = m3
                    v = {'signature': sig, 'spec': label, 'path': 'ok', 'detail': None}
                    try:
                        scen, nat, diffs = replay(trail, m)
                        v.update(scenario=scen, native=nat, predicted=None, reproduced=not diffs, diffs=diffs)
                    except Exception as e:
                        v.update(reproduced=False, diffs=['replay failed: %r' % (e,)], scenario=None)
                    res['violations'].append(v)
            if ti_ in witness_at:
                r, m = dec.check(pc + env + nice + ties, 'witness')
                if r == 'sat':
                    try:
                        scen, nat, diffs = replay(trail, m)
                    except Exception as e:
                        scen, diffs = None, ['replay failed: %r' % (e,)]
                    if diffs:
                        res['witness']['mismatch'] += 1
                        res['witness_mismatch'].append({'spec': label, 'path': 'history', 'detail': None, 'diffs': diffs[:4], 'scenario': scen})
                    else:
                        res['witness']['validated'] += 1
                        res['ok_reached'] += 1
                elif r == 'unsat':
                    res['witness']['infeasible_exact'] += 1
                else:
                    res['witness']['unknown'] += 1
        res['decider'] = {'queries': dec.n, 'solver_s': dec.t, 'stats': dec.stats, 'cross': dec.cross, 'cross_disagreements': dec.cross_disagreements[:5], 'retries': getattr(dec, 'retries', 0)}
    except Exception as e:
        res['error'] = '%s: %s\n%s' % (type(e).__name__, e, traceback.format_exc()[-1500:])
    res['wall_s'] = time.time() - t0
    res['functions'] = sorted(eng.functions_entered)
    res['models_used'] = sorted(eng.models_used)
    res['paths'] = dict(res['paths'])
    res['obligations'] = {'%s|%s' % k: v for k, v in res['obligations'].items()}
    res['witness'] = dict(res['witness'])
    return res


def run_spec(job):
    """explore one spec and decide the obligations of the requested properties on every path"""
    from . import world as W, harness as H, steps as ST, props as P
    prop_ids, spec, opts = job
    if spec.get('kind') == 'History':
        return run_history_job(job)
    eng = _W['eng']
    tier = _W['tier']
    t0 = time.time()
    if spec.get('_opts'):
        opts = dict(opts, **spec['_opts'])          # a spec of another entry point inside a check (its own builder / runner)
    if isinstance(opts.get('builder'), str):
        from . import entry as EN
        opts = dict(opts, builder=getattr(EN, opts['builder']), runner=getattr(EN, opts['runner']))
    res = {'spec': ST.label(spec), 'kind': spec['kind'], 'paths': collections.Counter(), 'obligations': collections.Counter(), 'violations': [], 'unknown': [],
           'witness': collections.Counter(), 'witness_mismatch': [], 'error': None, 'samples': [], 'ok_reached': 0}
    try:
        bounds = W.Bounds(tier)
        builder = opts.get('builder') or ST.build
        sc, req = builder(eng, bounds, spec)
        c0 = eng.nchecks
        dec = H.Decider(timeout_ms=opts.get('timeout_ms', 20000), seed=_W['seed'], dump_dir=opts.get('dump_dir'), cross_check=opts.get('cross_check', 0))
        env = H.env_assumptions(sc)
        nice = H.nice_constraints(sc)
        nsym = len(sc.sym)
        runner = opts.get('runner') or ST.run
        paths = list(runner(sc, req))
        res['explore_s'] = time.time() - t0
        res['pruning_checks'] = eng.nchecks - c0
        import zlib
        rng = random.Random(_W['seed'] * 7919 + zlib.crc32(res['spec'].encode()) % 100003)
        witness_budget = opts.get('witness_per_spec', 12)
        order = list(range(len(paths)))
        rng.shuffle(order)
        witness_idx = set()
        # prefer ok paths for witnesses (reachability of the assertions), then the rest
        for i in sorted(order, key=lambda i: 0 if paths[i].kind == 'ok' else 1)[:witness_budget]:
            witness_idx.add(i)
        ok_idx = [i for i in order if paths[i].kind == 'ok']
        exit_idx = set(ok_idx if tier == 'thorough' else ok_idx[:opts.get('then_exit_per_spec', 6)])
        for pi, p in enumerate(paths):
            res['paths'][p.kind] += 1
            if p.kind == 'oob':
                continue
            if len(sc.sym) != nsym:          # composed steps introduced new symbols: keep the realisability constraints complete
                env, nice, nsym = H.env_assumptions(sc), H.nice_constraints(sc), len(sc.sym)
            step = req.get('step') or {'kind': 'execute', 'sender': sc.sym['req.sender'], 'funds': sc.funds, 'msg': req['msg']}
            # ---- obligations
            for pid in prop_ids:
                for ob in P.PROPS[pid](sc, req, p):
                    name = pid + ':' + ob.name
                    r, m = dec.check(list(p.pc) + env + ob.neg, name)
                    res['obligations'][(name, r)] += 1
                    if len(res['samples']) < 3 and r == 'unsat':
                        res['samples'].append({'obligation': name, 'path': p.kind, 'spec': res['spec'], 'negated_goal': [str(x)[:300] for x in ob.neg][:3], 'verdict': 'unsat'})
                    if r == 'unknown':
                        res['unknown'].append({'obligation': name, 'spec': res['spec'], 'path': p.kind})
                    if r == 'sat':
                        sig = finding_signature(pid, ob, spec['kind'])
                        if any(v['signature'] == sig for v in res['violations']):
                            res['obligations'][(name, 'sat-duplicate')] += 1
                            continue
                        # prefer a model with realisable, non-coincidental strings and no pro-rata ties
                        r2, m2 = dec.check(list(p.pc) + env + ob.neg + nice + H.no_tie_constraints(p.world), name + ':nice')
                        if r2 == 'sat':
                            m = m2
                        else:
                            real = H.tie_realising_constraints(p.world)
                            if real:
                                r3, m3 = dec.check(list(p.pc) + env + ob.neg + nice + real, name + ':at-a-realisable-tie')
                                if r3 == 'sat':
                                    m = m3
                        v = {'signature': sig, 'spec': res['spec'], 'path': p.kind, 'detail': p.detail}
                        try:
                            scen, c = H.build_replay(sc, m, step, eng)
                            nat = H.run_replay(scen)['steps'][0]
                            pred = H.predicted_result(p, c, eng)
                            post = H.storage_json(p.world if p.kind == 'ok' else sc.world, c, eng)
                            diffs = H.compare_replay(pred, post, nat)
                            v.update(scenario=scen, native=nat, predicted=pred, reproduced=not diffs, diffs=diffs)
                        except Exception as e:
                            v.update(reproduced=False, diffs=['replay failed: %r' % (e,)], scenario=None)
                        res['violations'].append(v)
            # ---- composed step: after the accepted request, every order still on the book can be cancelled / expired (C06's quantifier, literally)
            if opts.get('extra') == 'then_exit' and p.kind == 'ok' and pi in exit_idx:
                for kind2 in ('CancelAsk', 'ExpireAsk', 'CancelBid', 'ExpireBid'):
                    spec2 = ST.default_spec(kind2)
                    for fol, req2, p2 in ST.run_second(sc, p, spec2, PX='req2'):
                        res['paths']['then:' + p2.kind] += 1
                        if p2.kind == 'oob':
                            continue
                        for ob in P.c06(fol, req2, p2):
                            name = 'C06:after_step_' + ob.name
                            r, m = dec.check(list(p2.pc) + env + ob.neg, name)
                            res['obligations'][(name, r)] += 1
                            if r == 'unknown':
                                res['unknown'].append({'obligation': name, 'spec': res['spec'], 'path': p2.kind})
                            if r == 'sat':
                                ob.info['first'] = spec['kind']
                                sig = finding_signature('C06', ob, kind2)
                                sig['obligation'] = 'after_step_' + ob.name
                                sig['info']['first'] = spec['kind']
                                if any(v['signature'] == sig for v in res['violations']):
                                    continue
                                v = {'signature': sig, 'spec': res['spec'], 'path': p2.kind, 'detail': p2.detail}
                                try:
                                    scen, c = H.build_replay(sc, m, step, eng)
                                    st2 = {'kind': 'execute', 'sender': c.term_string(req2['sender'], 'sender'), 'funds': [], 'msg': c.json(req2['msg'], eng.ti, eng.serde_rename)}
                                    scen['steps'].append(st2)
                                    nat = H.run_replay(scen)['steps']
                                    pred2 = H.predicted_result(p2, c, eng)
                                    post2 = H.storage_json(p2.world if p2.kind == 'ok' else p.world, c, eng)
                                    diffs = H.compare_replay(H.predicted_result(p, c, eng), None, nat[0]) + H.compare_replay(pred2, post2, nat[1])
                                    v.update(scenario=scen, native=nat[1], predicted=pred2, reproduced=not diffs, diffs=diffs)
                                except Exception as e:
                                    v.update(reproduced=False, diffs=['replay failed: %r' % (e,)], scenario=None)
                                res['violations'].append(v)
            # ---- composed step (C15): a converted legacy bid is then cancelled by its owner with the payouts its event log implies
            if opts.get('extra') == 'then_cancel_converted' and p.kind == 'ok':
                for fol, req2, p2 in ST.run_second(sc, p, ST.default_spec('CancelBid'), PX='req2'):
                    res['paths']['then:' + p2.kind] += 1
                    if p2.kind != 'ok':
                        continue
                    for ob in P.c15_then_cancel(fol, sc, req2, p2):
                        name = 'C15:' + ob.name
                        r, m = dec.check(list(p2.pc) + env + ob.neg, name)
                        res['obligations'][(name, r)] += 1
                        if r == 'unknown':
                            res['unknown'].append({'obligation': name, 'spec': res['spec'], 'path': p2.kind})
                        if r == 'sat':
                            sig = finding_signature('C15', ob, 'CancelBid')
                            if any(v['signature'] == sig for v in res['violations']):
                                continue
                            v = {'signature': sig, 'spec': res['spec'], 'path': p2.kind, 'detail': p2.detail}
                            try:
                                scen, c = H.build_replay(sc, m, step, eng)
                                scen['steps'].append({'kind': 'execute', 'sender': c.term_string(req2['sender'], 'sender'), 'funds': [], 'msg': c.json(req2['msg'], eng.ti, eng.serde_rename)})
                                nat = H.run_replay(scen)['steps']
                                diffs = H.compare_replay(H.predicted_result(p, c, eng), None, nat[0]) + H.compare_replay(H.predicted_result(p2, c, eng), H.storage_json(p2.world, c, eng), nat[1])
                                v.update(scenario=scen, native=nat, predicted=None, reproduced=not diffs, diffs=diffs)
                            except Exception as e:
                                v.update(reproduced=False, diffs=['replay failed: %r' % (e,)], scenario=None)
                            res['violations'].append(v)
            # ---- composed step (C16): what the order query reported is what the owner's cancel then returns
            if opts.get('extra') == 'then_cancel' and p.kind == 'ok' and req.get('q') in ('GetAsk', 'GetBid'):
                kind2 = 'CancelAsk' if req['q'] == 'GetAsk' else 'CancelBid'
                for fol, req2, p2 in ST.run_second(sc, p, ST.default_spec(kind2), PX='req2'):
                    res['paths']['then:' + p2.kind] += 1
                    if p2.kind != 'ok':
                        continue
                    for ob in P.c16_then_cancel(fol, req, p, req2, p2):
                        name = 'C16:' + ob.name
                        r, m = dec.check(list(p2.pc) + env + ob.neg, name)
                        res['obligations'][(name, r)] += 1
                        if r == 'unknown':
                            res['unknown'].append({'obligation': name, 'spec': res['spec'], 'path': p2.kind})
                        if r == 'sat':
                            sig = finding_signature('C16', ob, kind2)
                            if any(v['signature'] == sig for v in res['violations']):
                                continue
                            v = {'signature': sig, 'spec': res['spec'], 'path': p2.kind, 'detail': p2.detail}
                            try:
                                scen, c = H.build_replay(sc, m, step, eng)
                                scen['steps'].append({'kind': 'execute', 'sender': c.term_string(req2['sender'], 'sender'), 'funds': [], 'msg': c.json(req2['msg'], eng.ti, eng.serde_rename)})
                                nat = H.run_replay(scen)['steps']
                                diffs = H.compare_replay(H.predicted_result(p, c, eng), None, nat[0]) + H.compare_replay(H.predicted_result(p2, c, eng), H.storage_json(p2.world, c, eng), nat[1])
                                v.update(scenario=scen, native=nat, predicted=None, reproduced=not diffs, diffs=diffs)
                            except Exception as e:
                                v.update(reproduced=False, diffs=['replay failed: %r' % (e,)], scenario=None)
                            res['violations'].append(v)
            # ---- composed step: the same migration once more from the post-state (idempotence)
            if opts.get('extra') == 'idempotence' and p.kind == 'ok' and 'C14' in prop_ids:
                from . import entry as EN
                for p2 in EN.run_migrate_again(sc, req, p):
                    res['paths']['second:' + p2.kind] += 1
                    if p2.kind == 'oob':
                        continue
                    for ob in P.c14_idempotence(sc, req, p, p2):
                        name = 'C14:' + ob.name
                        r, m = dec.check(list(p2.pc) + env + ob.neg, name)
                        res['obligations'][(name, r)] += 1
                        if r == 'unknown':
                            res['unknown'].append({'obligation': name, 'spec': res['spec'], 'path': p2.kind})
                        if r == 'sat':
                            sig = finding_signature('C14', ob, spec['kind'])
                            if any(v['signature'] == sig for v in res['violations']):
                                continue
                            v = {'signature': sig, 'spec': res['spec'], 'path': p2.kind, 'detail': p2.detail}
                            try:
                                st2 = dict(step)
                                scen, c = H.build_replay(sc, m, step, eng)
                                scen['steps'].append(dict(scen['steps'][0]))
                                nat = H.run_replay(scen)['steps']
                                same_store = nat[0]['storage'] == nat[1]['storage'] and nat[1]['outcome'] == 'ok'
                                v.update(scenario=scen, native=nat[1], predicted=None, reproduced=not same_store, diffs=[] if not same_store else ['native second migration is a no-op'])
                            except Exception as e:
                                v.update(reproduced=False, diffs=['replay failed: %r' % (e,)], scenario=None)
                            res['violations'].append(v)
            # ---- witness replay (model validation + reachability)
            if len(sc.sym) != nsym:
                env, nice, nsym = H.env_assumptions(sc), H.nice_constraints(sc), len(sc.sym)
            if pi in witness_idx:
                r, m = dec.check(list(p.pc) + env + nice + H.no_tie_constraints(p.world), 'witness')
                if r == 'unsat':
                    r, m = dec.check(list(p.pc) + env, 'witness-raw')
                    if r == 'unsat':
                        res['witness']['infeasible_exact'] += 1
                        continue
                    res['witness']['not_realisable'] += 1
                    continue
                if r != 'sat':
                    res['witness']['unknown'] += 1
                    continue
                try:
                    scen, c = H.build_replay(sc, m, step, eng)
                    nat = H.run_replay(scen)['steps'][0]
                    pred = H.predicted_result(p, c, eng)
                    post = H.storage_json(p.world if p.kind == 'ok' else sc.world, c, eng)
                    diffs = H.compare_replay(pred, post, nat)
                except Exception as e:
                    diffs = ['replay failed: %r' % (e,)]
                    scen = None
                if diffs:
                    res['witness']['mismatch'] += 1
                    res['witness_mismatch'].append({'spec': res['spec'], 'path': p.kind, 'detail': p.detail, 'diffs': diffs[:4], 'scenario': scen})
                else:
                    res['witness']['validated'] += 1
                    if p.kind == 'ok':
                        res['ok_reached'] += 1
        if opts.get('extra') == 'integrality' and spec.get('with_integrality'):
            for ob in P.integrality_corollary():
                r, m = dec.check(ob.neg, 'C13:' + ob.name)
                res['obligations'][('C13:' + ob.name, r)] += 1
                if r == 'unknown':
                    res['unknown'].append({'obligation': ob.name, 'spec': 'pure arithmetic', 'path': '-'})
                if r == 'sat':
                    res['violations'].append({'signature': finding_signature('C13', ob, 'Instantiate'), 'spec': 'pure arithmetic', 'path': '-', 'reproduced': False,
                                              'diffs': ['arithmetic corollary refuted: %s' % m], 'scenario': None})
        res['decider'] = {'queries': dec.n, 'solver_s': dec.t, 'stats': dec.stats, 'cross': dec.cross, 'cross_disagreements': dec.cross_disagreements[:5], 'retries': getattr(dec, 'retries', 0)}
    except Exception as e:
        res['error'] = '%s: %s\n%s' % (type(e).__name__, e, traceback.format_exc()[-1500:])
    res['wall_s'] = time.time() - t0
    res['functions'] = sorted(eng.functions_entered)
    res['models_used'] = sorted(eng.models_used)
    res['paths'] = dict(res['paths'])
    res['obligations'] = {'%s|%s' % k: v for k, v in res['obligations'].items()}
    res['witness'] = dict(res['witness'])
    return res


# ------------------------------------------------------------------ main driver
def load_known():
    fn = os.path.join(VERIF, 'known_findings.json')
    if not os.path.exists(fn):
        return {'findings': [], 'fixed': []}
    return json.load(open(fn))


def matches_known(sig, known):
    for k in known.get('findings', []):
        mt = k['match']
        if mt.get('property') != sig['property'] or mt.get('obligation') != sig['obligation']:
            continue
        if 'kind' in mt and mt['kind'] != sig['kind'] and sig['kind'] not in (mt['kind'] if isinstance(mt['kind'], list) else [mt['kind']]):
            continue
        if all(sig['info'].get(a) == b for a, b in mt.get('info', {}).items()):
            return k
    return None


def run_check(pid, tier, seed, specs, opts=None, jobs=None, level_note=None, extra_assumptions=()):
    """common driver for step-based properties; returns exit code"""
    from . import world as W
    opts = opts or {}
    t0 = time.time()
    mirtext, mir_s = build_mir()
    replay_s = build_replay()
    jobs = jobs or min(16, os.cpu_count() or 4)
    if tier == 'thorough':
        opts.setdefault('timeout_ms', 120000)
        opts.setdefault('witness_per_spec', 60)
        opts.setdefault('cross_check', 25)
    else:
        opts.setdefault('cross_check', 2)
    results = []
    joblist = [([pid], s, opts) for s in specs]
    # longest first
    joblist.sort(key=lambda j: 0 if j[1]['kind'] in ('ExecuteMatch', 'History') else 1)
    with multiprocessing.get_context('fork').Pool(jobs, initializer=_init_worker, initargs=(mirtext, tier, seed)) as pool:
        for r in pool.imap_unordered(run_spec, joblist):
            results.append(r)
    return finish(pid, tier, seed, results, mirtext, dict(mir_s=mir_s, replay_build_s=replay_s, wall_s=time.time() - t0), extra_assumptions)


def finish(pid, tier, seed, results, mirtext, timing, extra_assumptions=()):
    from . import world as W
    known = load_known()
    total_paths = collections.Counter()
    obl = collections.Counter()
    witness = collections.Counter()
    violations, unknowns, errors, mismatches, samples = [], [], [], [], []
    functions, models_used = set(), set()
    queries = 0
    cross = collections.Counter()
    cross_dis = []
    retries = 0
    solver_s = 0.0
    pruning = 0
    ok_reached = 0
    for r in results:
        if r.get('error'):
            errors.append({'spec': r['spec'], 'error': r['error']})
        for k, v in r['paths'].items():
            total_paths[k] += v
        for k, v in r['obligations'].items():
            obl[k] += v
        for k, v in r['witness'].items():
            witness[k] += v
        violations += r['violations']
        unknowns += r['unknown']
        mismatches += r['witness_mismatch']
        samples += r['samples']
        functions |= set(r.get('functions', []))
        models_used |= set(r.get('models_used', []))
        d = r.get('decider') or {}
        queries += d.get('queries', 0)
        for k_, v_ in (d.get('cross') or {}).items():
            cross[k_] += v_
        cross_dis += d.get('cross_disagreements') or []
        retries += d.get('retries', 0)
        solver_s += d.get('solver_s', 0.0)
        pruning += r.get('pruning_checks', 0)
        ok_reached += r.get('ok_reached', 0)
    n_obl = sum(v for k, v in obl.items() if not k.endswith('sat-duplicate'))
    n_unsat = sum(v for k, v in obl.items() if k.endswith('|unsat'))
    # classify violations
    os.makedirs(os.path.join(VERIF, 'evidence', 'replays'), exist_ok=True)
    lines, new_viol, known_hits, not_reproduced = [], [], [], []
    seen = set()
    for v in violations:
        key = json.dumps(v['signature'], sort_keys=True)
        if key in seen:
            continue
        seen.add(key)
        if not v.get('reproduced'):
            not_reproduced.append(v)
            continue
        k = matches_known(v['signature'], known)
        if k is not None:
            known_hits.append((k, v))
        else:
            new_viol.append(v)
    for k, v in known_hits:
        lines.append('KNOWN-FINDING: property=%s %s' % (pid, k['what']))
    lines = sorted(set(lines))
    for n, v in enumerate(new_viol):
        fn = os.path.join(VERIF, 'evidence', 'replays', '%s_%d.json' % (pid, n))
        json.dump({'property': pid, 'signature': v['signature'], 'spec': v['spec'], 'scenario': v['scenario'], 'native': v['native'], 'predicted': v.get('predicted')}, open(fn, 'w'), indent=1)
        lines.append('VIOLATION property=%s replay=%s   # %s on %s: %s' % (pid, fn, v['signature']['obligation'], v['signature']['kind'], json.dumps(v['signature']['info'])))
    inconclusive = []
    if errors:
        inconclusive.append('%d spec(s) hit an unsupported construct or crashed: %s' % (len(errors), errors[0]['error'].splitlines()[0][:300]))
    if unknowns:
        inconclusive.append('%d obligation(s) undecided (solver unknown/timeout), first: %s' % (len(unknowns), unknowns[0]))
    if not_reproduced:
        inconclusive.append('%d counterexample(s) did not reproduce natively (encoder/model disagreement), first: %s %s' % (len(not_reproduced), not_reproduced[0]['signature'], not_reproduced[0].get('diffs')))
    if mismatches:
        inconclusive.append('%d witness replay(s) disagree with the compiled contract, first: %s' % (len(mismatches), json.dumps(mismatches[0])[:600]))
    if cross.get('disagree', 0) or cross.get('error', 0):
        inconclusive.append('%d solver disagreement(s) / error(s) between z3 and cvc5 on the same SMT-LIB2 text, first: %s' % (cross.get('disagree', 0) + cross.get('error', 0), cross_dis[:1]))
    if n_obl == 0:
        inconclusive.append('no obligation was generated (vacuous run)')
    if witness.get('validated', 0) == 0:
        inconclusive.append('no path witness was validated natively (vacuity guard)')
    src_hash = hashlib.sha256(mirtext.encode()).hexdigest()[:16]
    b = W.Bounds(tier)
    ev = {
        'property_id': pid, 'tier': tier, 'seed': seed, 'level': 'model_checking',
        'coverage': {
            'states': sum(total_paths.values()), 'transitions': queries + pruning, 'traces_validated_against_impl': witness.get('validated', 0),
            'samples': samples[:6] or [{'note': 'no obligation discharged'}],
            'paths_by_outcome': dict(total_paths), 'specs': len(results), 'obligations': n_obl, 'discharged': n_unsat,
            'obligations_by_name': dict(obl), 'exact_solver_queries': queries, 'exact_solver_s': round(solver_s, 2), 'pruning_checks_linear_abstraction': pruning,
            'second_solver_cvc5': dict(cross), 'z3_retries_after_unknown': retries,
            'witness_replays': dict(witness), 'ok_paths_reached_natively': ok_reached,
            'functions_encoded_from_mir': sorted(functions), 'library_models_used': sorted(models_used), 'mir_sha256_16': src_hash,
            'bounds': b.describe(), 'known_findings_hit': [k['id'] for k, _ in known_hits], 'violations': [v['signature'] for v in new_viol],
            'inconclusive': inconclusive, 'timing': timing,
            'explanation': 'every feasible path of the real MIR bodies from a symbolic Inv pre-state; one exact z3 query per obligation per path (unsat = holds within bounds); counterexamples and sampled path witnesses replayed on the compiled contract',
        },
        'assumptions': [
            'bounds: ' + json.dumps(b.describe()),
            'pre-states range over the representation invariant Inv (DESIGN.md 5.1); refused requests roll back (chain semantics)',
            'library models (DESIGN.md 3): rust_decimal exact within 96 bits / scale 28, pro-rata quotient exact up to a half-unit tie; cw-storage-plus typed key/value store; marker/attribute querier per denom/account; MockApi addr_validate',
            'MarkerAccount::try_from cannot fail behind the real querier transport (marker_decodes = true)',
            'the contract address is not an order owner, approver or fee account',
        ] + list(extra_assumptions),
        'wall_s': round(timing.get('wall_s', 0.0), 2),
        'violations': len(new_viol),
    }
    os.makedirs(os.path.join(VERIF, 'evidence'), exist_ok=True)
    json.dump(ev, open(os.path.join(VERIF, 'evidence', pid + '.json'), 'w'), indent=1, sort_keys=True)
    for l in lines:
        print(l)
    print('%s %s: specs=%d paths=%d obligations=%d discharged=%d sat=%d(known %d, new %d) unknown=%d witness=%s exact_queries=%d solver=%.1fs wall=%.1fs' % (
        pid, tier, len(results), sum(total_paths.values()), n_obl, n_unsat, len(seen), len(known_hits), len(new_viol), len(unknowns), dict(witness), queries, solver_s, timing.get('wall_s', 0)))
    for m in inconclusive:
        print('INCONCLUSIVE: ' + m[:1500])
    if new_viol:
        return 1
    if inconclusive:
        return 2
    return 0
