"""Throwaway spike: path-wise symbolic execution of MIR bodies with z3. Not framework code."""
import re, sys, time, itertools, collections
import z3
import mirparse as mp

StrS = z3.DeclareSort('Str')
f_is_empty = z3.Function('is_empty', StrS, z3.BoolSort())
f_uuid_ok = z3.Function('uuid_ok', StrS, z3.BoolSort())
f_uuid_hyph = z3.Function('uuid_hyph', StrS, StrS)
f_restricted = z3.Function('marker_type', StrS, z3.IntSort())
f_marker_found = z3.Function('marker_found', StrS, z3.BoolSort())
f_marker_dec = z3.Function('marker_decodes', StrS, z3.BoolSort())
_lits = {}


def lit(s):
    if s not in _lits:
        _lits[s] = z3.Const('lit_%d' % len(_lits), StrS)
    return _lits[s]


class Cell:
    __slots__ = ('v',)
    def __init__(self, v=None): self.v = v


class BoxCell(Cell):
    __slots__ = ()


class Adt:
    __slots__ = ('ty', 'variant', 'fields')
    def __init__(self, ty, variant, fields): self.ty, self.variant, self.fields = ty, variant, fields
    def __repr__(self): return '%s::%s%r' % (self.ty, self.variant, self.fields) if self.variant else '%s%r' % (self.ty, self.fields)


class Ref:
    __slots__ = ('cell', 'path')
    def __init__(self, cell, path): self.cell, self.path = cell, path
    def __repr__(self): return 'Ref(%r)' % (self.path,)


class Opaque:
    def __init__(self, tag, *a): self.tag, self.a = tag, a
    def __repr__(self): return 'Opaque(%s)' % self.tag


class Unsupported(Exception):
    pass


def clone(v, memo):
    """structure-preserving copy; z3 terms and python scalars are atoms."""
    if isinstance(v, (z3.AstRef, int, str, bool, type(None), Opaque)):
        return v
    k = id(v)
    if k in memo:
        return memo[k]
    if isinstance(v, Cell):
        c = type(v)(); memo[k] = c; c.v = clone(v.v, memo); return c
    if isinstance(v, Adt):
        a = Adt(v.ty, v.variant, None); memo[k] = a; a.fields = [clone(x, memo) for x in v.fields]; return a
    if isinstance(v, Ref):
        r = Ref(None, v.path); memo[k] = r; r.cell = clone(v.cell, memo); return r
    if isinstance(v, list):
        l = []; memo[k] = l; l.extend(clone(x, memo) for x in v); return l
    if isinstance(v, dict):
        d = {}; memo[k] = d
        for a, b in v.items(): d[a] = clone(b, memo)
        return d
    if isinstance(v, tuple):
        return tuple(clone(x, memo) for x in v)
    if isinstance(v, Frame):
        f = Frame.__new__(Frame); memo[k] = f
        f.body, f.bb, f.idx, f.ret, f.generics = v.body, v.bb, v.idx, clone(v.ret, memo), v.generics
        f.locals = clone(v.locals, memo); return f
    raise TypeError(type(v))


class Frame:
    def __init__(self, body, args, ret, generics=None):
        self.body, self.bb, self.idx, self.ret, self.generics = body, 'bb0', 0, ret, generics or {}
        self.locals = {}
        for i, a in enumerate(args):
            self.locals[i + 1] = Cell(a)


class State:
    def __init__(self):
        self.frames, self.pc, self.world, self.outcome = [], [], {}, None
    def fork(self):
        memo = {}
        s = State()
        s.frames = clone(self.frames, memo); s.pc = list(self.pc); s.world = clone(self.world, memo); s.outcome = self.outcome
        return s


class Exec:
    def __init__(self, items, srcroot):
        self.items, self.srcroot = items, srcroot
        self.parsed = {}
        self.solver = z3.Solver(); self.solver.set('timeout', 10000)
        self.nchecks = 0; self.tcheck = 0.0
        self.models = {}
        self.index_impls()

    # ---- resolution of crate-local functions ----
    def index_impls(self):
        self.by_last = collections.defaultdict(list)
        for name, bodies in self.items.items():
            if bodies[0].kind != 'fn': continue
            last = name.rsplit('::', 1)[-1] if not name.endswith('}') else name
            self.by_last[last].append(name)
        self.closures = {}
        for name, bodies in self.items.items():
            m = re.search(r'_1: (?:&mut |&)?(\{closure@[^}]*\})', bodies[0].sig)
            if m: self.closures[m.group(1)] = name

    def body(self, name):
        b = self.items[name][0]
        if name not in self.parsed:
            self.parsed[name] = {bb: [mp.parse_stmt(s) for s in st] for bb, st in b.blocks.items()}
        return b

    # ---- linear abstraction for pruning: x*y, x%y, x/y with two symbolic operands -> uninterpreted functions ----
    _abs_cache = {}
    UF_MUL = z3.Function('mulUF', z3.IntSort(), z3.IntSort(), z3.IntSort())
    UF_MOD = z3.Function('modUF', z3.IntSort(), z3.IntSort(), z3.IntSort())
    UF_DIV = z3.Function('divUF', z3.IntSort(), z3.IntSort(), z3.IntSort())

    def abstract(self, e):
        if not isinstance(e, z3.ExprRef): return e
        k = e.get_id()
        if k in self._abs_cache: return self._abs_cache[k][1]
        if z3.is_app(e) and e.num_args() > 0:
            ch = [self.abstract(c) for c in e.children()]
            kind = e.decl().kind()
            if kind == z3.Z3_OP_MUL:
                consts = [c for c in ch if z3.is_int_value(c)]; syms = [c for c in ch if not z3.is_int_value(c)]
                if len(syms) >= 2:
                    syms.sort(key=lambda t: t.get_id())
                    acc = syms[0]
                    for t in syms[1:]: acc = self.UF_MUL(acc, t)
                    r = acc
                    for c in consts: r = c * r
                else:
                    r = e.decl()(*ch)
            elif kind in (z3.Z3_OP_MOD, z3.Z3_OP_REM) and not z3.is_int_value(ch[1]):
                r = self.UF_MOD(ch[0], ch[1])
            elif kind in (z3.Z3_OP_IDIV, z3.Z3_OP_DIV) and not z3.is_int_value(ch[1]):
                r = self.UF_DIV(ch[0], ch[1])
            else:
                r = e.decl()(*ch)
        else:
            r = e
        self._abs_cache[k] = (e, r)      # keep e alive: ids are recycled after GC
        return r

    def feasible(self, st, cond):
        t = time.time(); self.nchecks += 1
        r = self.solver.check(*[self.abstract(c) for c in st.pc + [cond]])
        dt = time.time() - t; self.tcheck += dt
        if r == z3.unknown: self.nunknown = getattr(self, 'nunknown', 0) + 1
        if dt > 2: print('   slow feasibility %.1fs %s' % (dt, r), str(cond)[:100], flush=True)
        return r != z3.unsat

    def feasible_exact(self, st, cond):
        t = time.time(); self.nchecks += 1
        r = self.solver.check(*(st.pc + [cond]))
        dt = time.time() - t; self.tcheck += dt
        if r == z3.unknown: self.nunknown = getattr(self, 'nunknown', 0) + 1
        if dt > 2: print('   slow feasibility %.1fs %s' % (dt, r), str(cond)[:100], flush=True)
        return r != z3.unsat

    # ---- places ----
    def resolve(self, st, fr, place):
        """-> (cell, path) with derefs followed."""
        cell, path = fr.locals.setdefault(place.local, Cell()), []
        for p in place.proj:
            if p[0] == 'deref':
                v = self.read(cell, path)
                if not isinstance(v, Ref):
                    cell, path = Cell(v), []        # &str / &[u8] modelled by value
                else:
                    cell, path = v.cell, list(v.path)
            elif p[0] == 'field':
                if isinstance(cell, BoxCell): continue      # MaybeUninit/ManuallyDrop/MaybeDangling wrappers of vec! lowering
                path = path + [p[1]]
            elif p[0] == 'downcast':
                path = path + [('as', p[1])]
            else:
                raise Unsupported('proj %r' % (p,))
        return cell, path

    WRAPPERS = ('MaybeUninit', 'ManuallyDrop', 'MaybeDangling', 'Unique', 'NonNull', 'Box')

    def read(self, cell, path):
        v = cell.v
        for p in path:
            if isinstance(p, tuple):       # downcast: no-op on Adt (variant already concrete)
                if isinstance(v, Adt) and v.variant is not None and v.variant != p[1]:
                    raise Unsupported('downcast %s of %r' % (p[1], v))
                continue
            if isinstance(v, Adt) and v.ty == 'Box':
                v = v.fields[0]; continue   # Box.0 (Unique) -> pointer
            if isinstance(v, Ref) and isinstance(v.cell, BoxCell):
                continue                    # Unique.0 (NonNull) -> same pointer
            if not isinstance(v, Adt): raise Unsupported('field %r of %r' % (p, v))
            v = v.fields[p]
        return v

    def write(self, cell, path, val):
        if not path:
            cell.v = val; return
        # walk to parent
        v = cell.v
        real = [p for p in path if not isinstance(p, tuple)]
        for p in real[:-1]:
            v = v.fields[p]
        v.fields[real[-1]] = val

    def operand(self, st, fr, op):
        if op.kind in ('copy', 'move'):
            cell, path = self.resolve(st, fr, op.val)
            v = self.read(cell, path)
            return clone(v, {}) if op.kind == 'copy' and isinstance(v, (Adt, list)) else v
        if op.kind == 'fnitem':
            return Opaque('fn', op.val)
        return self.const(st, fr, op.val)

    def const(self, st, fr, c):
        if c in ('true', 'false'): return z3.BoolVal(c == 'true')
        m = re.match(r'^(-?\d+)_(u|i)(8|16|32|64|128|size)$', c)
        if m: return z3.IntVal(int(m.group(1)))
        if c.startswith('"'): return lit(eval(c))
        if c == '()': return Adt('tuple', None, [])
        if c.startswith('ZeroSized'): return Opaque('zst', c)
        # named constant / promoted: evaluate its body
        name = c
        cand = [n for n in self.items if self.items[n][0].kind == 'const' and (n == name or name.endswith('::' + n))]
        if len(cand) >= 1:
            b = self.items[max(cand, key=len)][0]
            if not b.blocks:
                return self.const(st, fr, b.sig.split(' = const ', 1)[1].rstrip(';'))
            return self.run_const(st, max(cand, key=len))
        # "const X: T = const lit;" one-liners are not in items (no body) -> scan source text
        m = re.search(r'^const (?:[\w:]+::)?%s: [^=]+ = const (.*);$' % re.escape(name.rsplit('::', 1)[-1]), self.text, re.M)
        if m: return self.const(st, fr, m.group(1))
        raise Unsupported('const ' + c)

    def run_const(self, st, name):
        sub = State(); sub.pc = st.pc; sub.world = st.world
        out = Cell()
        sub.frames.append(Frame(self.body(name), [], (out, [])))
        res = list(self.run(sub, until_depth=0))
        assert len(res) == 1
        return out.v

    # ---- main loop: yields finished states ----
    def run(self, st0, until_depth=0):
        work = [st0]
        while work:
            st = work.pop()
            while True:
                if st.outcome is not None or len(st.frames) <= until_depth - 1 or not st.frames:
                    yield st; break
                fr = st.frames[-1]
                stmts = self.parsed[fr.body.name][fr.bb]
                s = stmts[fr.idx]
                if isinstance(s, mp.Stmt):
                    fr.idx += 1
                    if s.kind == 'assign':
                        val = self.rvalue(st, fr, s.b)
                        cell, path = self.resolve(st, fr, s.a)
                        self.write(cell, path, val)
                    continue
                k = s.kind
                if k == 'goto':
                    fr.bb, fr.idx = s.data, 0
                elif k == 'drop':
                    fr.bb, fr.idx = s.data[1]['return'], 0
                elif k == 'return':
                    ret = fr.locals[0].v if 0 in fr.locals else None
                    st.frames.pop()
                    if fr.ret is not None:
                        cell, path = fr.ret
                        self.write(cell, path, ret)
                    if not st.frames:
                        st.outcome = ('return', ret); yield st; break
                    if len(st.frames) == until_depth and until_depth:
                        yield st; break
                elif k == 'unreachable':
                    st.outcome = ('unreachable', fr.body.name, fr.bb); yield st; break
                elif k == 'switch':
                    op, arms = s.data
                    v = self.operand(st, fr, op)
                    if isinstance(v, int): v = z3.IntVal(v)
                    if z3.is_bool(v): v = z3.If(v, 1, 0)
                    v = z3.simplify(v)
                    succ = []
                    others = []
                    for key, tgt in arms.items():
                        if key == 'otherwise': continue
                        others.append(v != int(key)); succ.append((v == int(key), tgt))
                    if 'otherwise' in arms: succ.append((z3.And(*others) if others else z3.BoolVal(True), arms['otherwise']))
                    live = []
                    if z3.is_int_value(v):
                        live = [(c, t) for c, t in succ if z3.is_true(z3.simplify(c))]
                    else:
                        live = [(c, t) for c, t in succ if self.feasible(st, c)]
                    if not live:
                        st.outcome = ('infeasible',); break
                    for c, t in live[1:]:
                        s2 = st.fork(); s2.pc.append(c); f2 = s2.frames[-1]; f2.bb, f2.idx = t, 0; work.append(s2)
                    c, t = live[0]
                    if not z3.is_int_value(v): st.pc.append(c)
                    fr.bb, fr.idx = t, 0
                elif k == 'assert':
                    neg, op, msg, tg = s.data
                    v = self.operand(st, fr, op)
                    ok = z3.Not(v) if neg else v
                    if self.feasible(st, z3.Not(ok)):
                        s2 = st.fork(); s2.pc.append(z3.Not(ok)); s2.outcome = ('panic', msg); work.append(s2)
                    st.pc.append(ok); fr.bb, fr.idx = tg['success'], 0
                elif k == 'call':
                    dest, callee, args, tg = s.data
                    argv = [self.operand(st, fr, a) for a in args]
                    retbb = tg.get('return')
                    fr.bb, fr.idx = retbb, 0
                    destptr = self.resolve(st, fr, dest) if dest is not None else None
                    r = self.call(st, fr, callee, argv, destptr)
                    if r is PUSHED:
                        continue
                    # r: list of (cond, value|PANIC)
                    outs = [(c, v) for c, v in r if c is True or self.feasible(st, c)]
                    if not outs:
                        st.outcome = ('infeasible',); break
                    for c, v in outs[1:]:
                        s2 = st.fork(); memo_dest = None
                        if c is not True: s2.pc.append(c)
                        self.finish_call(s2, s2.frames[-1], dest, v)
                        work.append(s2)
                    c, v = outs[0]
                    if c is not True: st.pc.append(c)
                    self.finish_call(st, fr, dest, v)
                else:
                    raise Unsupported('term ' + k)

    def finish_call(self, st, fr, dest, v):
        if isinstance(v, Opaque) and v.tag == 'PANIC':
            st.outcome = ('panic', v.a); return
        if dest is not None:
            cell, path = self.resolve(st, fr, dest)
            self.write(cell, path, clone(v, {}) if isinstance(v, (Adt, list)) else v)

    # ---- rvalues ----
    def rvalue(self, st, fr, rv):
        k, a = rv.kind, rv.args
        if k == 'use': return self.operand(st, fr, a[0])
        if k == 'ref' or k == 'rawref':
            cell, path = self.resolve(st, fr, a[1]); return Ref(cell, path)
        if k == 'discriminant':
            cell, path = self.resolve(st, fr, a[0]); v = self.read(cell, path)
            if isinstance(v, Adt) and v.variant is not None: return z3.IntVal(self.variant_index(v))
            raise Unsupported('discriminant of %r' % (v,))
        if k == 'adt':
            path, shape, fields = a
            vals = [self.operand(st, fr, f[1] if shape == 'struct' else f) for f in fields]
            ty, variant = self.split_variant(path)
            if shape == 'struct' and variant is None: pass
            return Adt(ty, variant, vals)
        if k == 'tuple': return Adt('tuple', None, [self.operand(st, fr, x) for x in a])
        if k == 'array': return [self.operand(st, fr, x) for x in a]
        if k == 'closure': return Adt(a[0], None, [self.operand(st, fr, f[1]) for f in a[1]])
        if k == 'cast':
            v = self.operand(st, fr, a[0]); return v      # Transmute/PtrToPtr/IntToInt(widening) are identity here
        if k == 'binop':
            op, x, y = a[0], self.operand(st, fr, a[1]), self.operand(st, fr, a[2])
            return {'Eq': lambda: x == y, 'Ne': lambda: x != y, 'Lt': lambda: x < y, 'Le': lambda: x <= y, 'Gt': lambda: x > y, 'Ge': lambda: x >= y,
                    'Add': lambda: x + y, 'Sub': lambda: x - y, 'Mul': lambda: x * y, 'Rem': lambda: x % y, 'Div': lambda: x / y,
                    'AddWithOverflow': lambda: Adt('tuple', None, [x + y, x + y >= 2 ** 128])}[op]()
        if k == 'unop':
            v = self.operand(st, fr, a[1]); return z3.Not(v) if a[0] == 'Not' else -v
        raise Unsupported('rvalue ' + k)

    ENUMS = {'Option': ['None', 'Some'], 'Result': ['Ok', 'Err'], 'ControlFlow': ['Continue', 'Break']}

    def split_variant(self, path):
        p = strip_generics(path)
        segs = p.split('::')
        enums = self.enum_variants()
        if len(segs) >= 2 and segs[-2] in enums and segs[-1] in enums[segs[-2]]: return segs[-2], segs[-1]
        for e, vs in enums.items():
            if segs[-1] in vs and len(segs) == 1: return e, segs[-1]
        return segs[-1], None

    _ev = None
    def enum_variants(self):
        if self._ev is None:
            ev = dict(self.ENUMS)
            import glob
            for f in glob.glob(self.srcroot + '/src/**/*.rs', recursive=True):
                src = open(f).read()
                for m in re.finditer(r'pub enum (\w+) \{(.*?)\n\}', src, re.S):
                    body = re.sub(r'\{[^{}]*\}|\([^()]*\)', '', m.group(2))
                    body = re.sub(r'#\[[^\]]*\]|//[^\n]*', '', body)
                    ev[m.group(1)] = [v.strip() for v in body.split(',') if v.strip()]
            ev['RoundingStrategy'] = ['MidpointNearestEven', 'MidpointAwayFromZero', 'MidpointTowardZero', 'ToZero', 'AwayFromZero', 'ToNegativeInfinity', 'ToPositiveInfinity', 'BankersRounding', 'RoundHalfUp', 'RoundHalfDown', 'RoundDown', 'RoundUp']
            ev['BankMsg'] = ['Send', 'Burn']
            Exec._ev = ev
        return self._ev

    def variant_index(self, v):
        if v.ty == 'Ordering': return {'Less': 255, 'Equal': 0, 'Greater': 1}[v.variant]   # i8 discriminants as printed by MIR
        return self.enum_variants()[v.ty].index(v.variant)

    # ---- calls ----
    def call(self, st, fr, callee, argv, destptr):
        name = strip_generics(callee)
        generics = callee
        # crate-local?
        tgt = self.lookup_local(name, argv, callee)
        if tgt is not None:
            self.body(tgt)
            st.frames.append(Frame(self.items[tgt][0], argv, destptr))
            return PUSHED
        for pat, fn in MODELS:
            m = re.match(pat, name)
            if m:
                return fn(self, st, argv, callee, m)
        raise Unsupported('callee ' + name + '   [' + callee[:120] + ']')

    def lookup_local(self, name, argv, callee):
        m = re.match(r'^<(.+) as (.+)>::(\w+)$', name)
        if m:
            selfty, trait, meth = m.group(1).lstrip('&'), m.group(2), m.group(3)
            for n in self.by_last.get(meth, []):
                sig = self.items[n][0].sig
                if 'impl at' in n and re.search(r'_1: &?(mut )?(\w+::)*%s[,)]' % re.escape(selfty.split('::')[-1]), sig):
                    return n
            return None
        last = name.rsplit('::', 1)[-1]
        if name in self.items and self.items[name][0].kind == 'fn': return name
        cands = self.by_last.get(last, [])
        if '::' in name:
            ty = name.rsplit('::', 2)[-2]
            for n in cands:
                sig = self.items[n][0].sig
                if 'impl at' in n and re.search(r'_1: &?(mut )?(\w+::)*%s[,)]' % re.escape(ty), sig): return n
                if n == name or n.endswith('::' + name) or name.endswith(n): return n
            return None
        return cands[0] if len(cands) == 1 and 'impl at' not in cands[0] else None


PUSHED = object()


def strip_generics(s):
    """remove ::<...> turbofish groups (bracket-aware)."""
    out, i, n = [], 0, len(s)
    while i < n:
        if s.startswith('::<', i) and not s.startswith('::<impl ', i):
            j = mp.match_close(s, i + 2); i = j + 1; continue
        out.append(s[i]); i += 1
    return ''.join(out)


def PANIC(*a): return Opaque('PANIC', *a)
def some(v): return Adt('Option', 'Some', [v])
NONE = lambda: Adt('Option', 'None', [])
def ok(v): return Adt('Result', 'Ok', [v])
def err(v): return Adt('Result', 'Err', [v])
def deref(ex, v): return ex.read(v.cell, v.path) if isinstance(v, Ref) else v


def m_identity(ex, st, a, c, m): return [(True, deref(ex, a[0]) if 'Deref' in c or 'as_' in c or 'clone' in c or 'to_owned' in c else a[0])]


def m_clone(ex, st, a, c, m):
    v = deref(ex, a[0]); return [(True, clone(v, {}))]


def m_vec_is_empty(ex, st, a, c, m): return [(True, z3.BoolVal(len(deref(ex, a[0])) == 0))]


def m_str_is_empty(ex, st, a, c, m): return [(True, f_is_empty(deref(ex, a[0])))]


def m_uuid_parse(ex, st, a, c, m):
    s = deref(ex, a[0]); return [(f_uuid_ok(s), ok(Adt('Uuid', None, [s]))), (z3.Not(f_uuid_ok(s)), err(Opaque('uuid::Error')))]


def m_is_err(ex, st, a, c, m): return [(True, z3.BoolVal(deref(ex, a[0]).variant == 'Err'))]
def m_is_some(ex, st, a, c, m): return [(True, z3.BoolVal(deref(ex, a[0]).variant == 'Some'))]


def m_vec_new(ex, st, a, c, m): return [(True, [])]
def m_vec_push(ex, st, a, c, m): deref(ex, a[0]).append(a[1]); return [(True, Adt('tuple', None, []))]
def m_vec_len(ex, st, a, c, m): return [(True, z3.IntVal(len(deref(ex, a[0]))))]


def m_try_branch(ex, st, a, c, m):
    r = a[0]
    return [(True, Adt('ControlFlow', 'Continue', [r.fields[0]]) if r.variant == 'Ok' else Adt('ControlFlow', 'Break', [err(r.fields[0])]))]


def m_from_residual(ex, st, a, c, m):
    e = a[0].fields[0]
    # From conversions between error types: wrap
    mm = re.search(r'from_residual$', c)
    tgt = re.match(r'^<Result<.*?, ([\w:]+)> as FromResidual<Result<Infallible, ([\w:]+)>>>', strip_generics(c))
    if tgt and tgt.group(1).split('::')[-1] != tgt.group(2).split('::')[-1]:
        e = Adt(tgt.group(1).split('::')[-1], 'From_' + tgt.group(2).split('::')[-1], [e])
    return [(True, err(e))]


def m_map_err(ex, st, a, c, m):
    r = a[0]
    if r.variant == 'Ok': return [(True, r)]
    f = a[1]
    if isinstance(f, Opaque) and f.tag == 'fn':
        ty, var = ex.split_variant(f.a[0]); return [(True, err(Adt(ty, var, [r.fields[0]])))]
    clo = re.search(r'(\{closure@[^}]*\})', c).group(1)
    tgt = ex.closures[clo]; ex.body(tgt)
    out = Cell()
    sub = State(); sub.pc = st.pc; sub.world = st.world
    sub.frames.append(Frame(ex.items[tgt][0], [f, r.fields[0]], (out, [])))
    res = list(ex.run(sub)); assert len(res) == 1
    return [(True, err(out.v))]


def m_map_load(ex, st, a, c, m):
    mapv, key = deref(ex, a[0]), a[2]
    ns = mapv.fields[0]
    outs = []
    for (ens, ekey), (present, val) in st.world['store'].items():
        if z3.eq(ens, ns):
            outs.append((z3.And(present, key == ekey), ok(clone(val, {}))))
    others = z3.And(*[z3.Not(z3.And(p, key == k)) for (n_, k), (p, _) in st.world['store'].items() if z3.eq(n_, ns)] or [z3.BoolVal(True)])
    outs.append((others, err(Adt('StdError', 'NotFound', []))))
    st.world['log'].append(('load', ns, key))
    return outs


def m_map_remove(ex, st, a, c, m):
    mapv, key = deref(ex, a[0]), a[2]
    st.world['log'].append(('remove', mapv.fields[0], key))
    return [(True, Adt('tuple', None, []))]


def m_map_new(ex, st, a, c, m): return [(True, Adt('Map', None, [deref(ex, a[0])]))]


def m_as_bytes(ex, st, a, c, m): return [(True, deref(ex, a[0]))]


def m_eq(ex, st, a, c, m):
    x, y = deref(ex, a[0]), deref(ex, a[1])
    while isinstance(x, Ref): x = deref(ex, x)
    while isinstance(y, Ref): y = deref(ex, y)
    r = struct_eq(x, y)
    return [(True, z3.Not(r) if c.endswith('::ne') else r)]


def struct_eq(x, y):
    if isinstance(x, Adt) and isinstance(y, Adt):
        if x.variant != y.variant or len(x.fields) != len(y.fields): return z3.BoolVal(False)
        return z3.And(*[struct_eq(p, q) for p, q in zip(x.fields, y.fields)]) if x.fields else z3.BoolVal(True)
    if isinstance(x, list) and isinstance(y, list):
        return z3.And(*[struct_eq(p, q) for p, q in zip(x, y)]) if len(x) == len(y) else z3.BoolVal(False)
    return x == y


def m_marker_new(ex, st, a, c, m): return [(True, Adt('MarkerQuerier', None, [a[0]]))]


def m_marker_query(ex, st, a, c, m):
    d = a[1]
    resp_some = ok(Adt('QueryMarkerResponse', None, [some(Adt('Any', None, [d]))]))
    resp_none = ok(Adt('QueryMarkerResponse', None, [NONE()]))
    return [(f_marker_found(d), resp_some), (z3.Not(f_marker_found(d)), resp_none)]


def m_marker_tryfrom(ex, st, a, c, m):
    d = a[0].fields[0]
    acct = Adt('MarkerAccount', None, [Opaque('base_account'), Opaque('manager'), Opaque('acl'), Opaque('status'), d, Opaque('supply'), f_restricted(d), Opaque('sf'), Opaque('agc'), Opaque('aft'), Opaque('ra')])
    return [(f_marker_dec(d), ok(acct)), (z3.Not(f_marker_dec(d)), err(Opaque('DecodeError')))]


def m_generic_err(ex, st, a, c, m): return [(True, Adt('StdError', 'GenericErr', [a[0]]))]
def m_response_new(ex, st, a, c, m): return [(True, Adt('Response', None, [[], [], [], Opaque('data')]))]


def m_add_message(ex, st, a, c, m):
    a[0].fields[0].append(a[1]); return [(True, a[0])]


def m_add_attributes(ex, st, a, c, m):
    a[0].fields[1].extend(a[1]); return [(True, a[0])]


def m_attr(ex, st, a, c, m):
    v = deref(ex, a[1])
    if isinstance(v, Adt) and v.ty == 'Uint128': v = Opaque('NumStr', v.fields[0])
    return [(True, Adt('Attribute', None, [deref(ex, a[0]), v]))]
def m_into_u128(ex, st, a, c, m):
    v = deref(ex, a[0]); return [(True, v.fields[0] if isinstance(v, Adt) else v)]
def m_coins(ex, st, a, c, m): return [(True, [Adt('Coin', None, [a[1], Adt('Uint128', None, [a[0]])])])]
def m_u128_to_string(ex, st, a, c, m): return [(True, Opaque('NumStr', deref(ex, a[0])))]
def m_to_string_action(ex, st, a, c, m): return [(True, lit('action:' + deref(ex, a[0]).variant))]
def m_box_uninit(ex, st, a, c, m): return [(True, Adt('Box', None, [Ref(BoxCell(None), [])]))]
def m_box_into_vec(ex, st, a, c, m): return [(True, a[0].fields[0].cell.v)]
def m_unwrap(ex, st, a, c, m):
    r = a[0]; return [(True, r.fields[0] if r.variant in ('Ok', 'Some') else PANIC('unwrap', r))]
def m_addr_into_string(ex, st, a, c, m): return [(True, deref(ex, a[0]))]


def m_to_value(ex, st, a, c, m):
    v = a[0]
    while isinstance(v, Ref): v = deref(ex, v)
    snake = re.sub(r'(?<!^)(?=[A-Z])', '_', v.variant).lower()
    return [(True, ok(Adt('Value', 'String', [lit(snake)])))]


def m_value_as_str(ex, st, a, c, m):
    v = deref(ex, a[0]); return [(True, some(v.fields[0]) if v.variant == 'String' else NONE())]


def call_closure(ex, st, clo_text, clo_val, args):
    tgt = ex.closures[clo_text]; ex.body(tgt)
    out = Cell()
    sub = State(); sub.pc = st.pc; sub.world = st.world
    first = ex.items[tgt][0].sig
    selfarg = Ref(Cell(clo_val), []) if re.search(r'_1: &', first) else clo_val
    sub.frames.append(Frame(ex.items[tgt][0], [selfarg] + args, (out, [])))
    res = [r for r in ex.run(sub) if r.outcome[0] != 'infeasible']
    assert len(res) == 1, 'forking closure'
    return out.v


def m_into_iter(ex, st, a, c, m): return [(True, Adt('Iter', None, [list(deref(ex, a[0])) if not isinstance(a[0], list) else a[0]]))]
def m_iter_map(ex, st, a, c, m): return [(True, Adt('MapIter', None, [a[0], a[1], re.search(r'(\{closure@[^}]*\})', c).group(1)]))]


def m_collect(ex, st, a, c, m):
    it = a[0]
    if it.ty == 'MapIter':
        src, clo, clo_text = it.fields
        return [(True, [call_closure(ex, st, clo_text, clo, [x]) for x in src.fields[0]])]
    return [(True, list(it.fields[0]))]


f_dec_ok = z3.Function('dec_ok', StrS, z3.BoolSort())
f_dec_n = z3.Function('dec_n', StrS, z3.IntSort())
f_dec_d = z3.Function('dec_d', StrS, z3.IntSort())
_fresh = itertools.count()


def Dec(n, d): return Adt('Decimal', None, [n, d])
def U(v): return Adt('Uint128', None, [v])
def uval(ex, v):
    v = deref(ex, v)
    return v.fields[0] if isinstance(v, Adt) else v


def m_dec_from_str(ex, st, a, c, m):
    s_ = deref(ex, a[0]); return [(f_dec_ok(s_), ok(Dec(f_dec_n(s_), f_dec_d(s_)))), (z3.Not(f_dec_ok(s_)), err(Opaque('rust_decimal::Error')))]
def m_dec_from_u128(ex, st, a, c, m): return [(True, Dec(uval(ex, a[0]), z3.IntVal(1)))]
def m_dec_from_u128_opt(ex, st, a, c, m):
    n = uval(ex, a[0]); return [(n < 2 ** 96, some(Dec(n, z3.IntVal(1)))), (n >= 2 ** 96, NONE())]
def m_dec_mul(ex, st, a, c, m):
    x, y = deref(ex, a[0]), deref(ex, a[1]); return [(True, some(Dec(x.fields[0] * y.fields[0], x.fields[1] * y.fields[1])))]
def m_dec_div(ex, st, a, c, m):
    x, y = deref(ex, a[0]), deref(ex, a[1])
    return [(y.fields[0] != 0, some(Dec(x.fields[0] * y.fields[1], x.fields[1] * y.fields[0]))), (y.fields[0] == 0, NONE())]
_euclid = {}
def euclid(st, n, d):
    k = (n.get_id(), d.get_id())
    if k not in _euclid:
        i = next(_fresh); q, r = z3.Int('eq%d' % i), z3.Int('er%d' % i)
        _euclid[k] = (n, d, q, r)
    n0, d0, q, r = _euclid[k]
    cons = z3.And(n == q * d + r, r >= 0, r < d)
    if not any(z3.eq(cons, p) for p in st.pc[-40:]): st.pc.append(cons)
    return q, r
def m_dec_fract(ex, st, a, c, m):
    x = deref(ex, a[0]); q, r = euclid(st, x.fields[0], x.fields[1]); return [(True, Dec(r, x.fields[1]))]
def m_dec_zero(ex, st, a, c, m): return [(True, Dec(z3.IntVal(0), z3.IntVal(1)))]
def m_dec_ne(ex, st, a, c, m):
    x, y = deref(ex, a[0]), deref(ex, a[1]); return [(True, x.fields[0] * y.fields[1] != y.fields[0] * x.fields[1])]
def m_dec_to_u128(ex, st, a, c, m):
    x = deref(ex, a[0]); n, d = x.fields
    q, r = euclid(st, n, d)
    return [(n >= 0, some(q)), (n < 0, NONE())]
def m_dec_round(ex, st, a, c, m):
    x = deref(ex, a[0]); n, d = x.fields; strat = a[2]
    assert strat.variant == 'MidpointAwayFromZero' and z3.is_int_value(a[1]) and a[1].as_long() == 0
    r = z3.Int('r%d' % next(_fresh)); st.pc.append(z3.And(2 * d * r <= 2 * n + d, 2 * n + d < 2 * d * (r + 1)))
    return [(True, Dec(r, z3.IntVal(1)))]
def m_ok_or(ex, st, a, c, m): return [(True, ok(a[0].fields[0]) if a[0].variant == 'Some' else err(a[1]))]
def m_u_new(ex, st, a, c, m): return [(True, U(uval(ex, a[0])))]
def m_u_zero(ex, st, a, c, m): return [(True, U(z3.IntVal(0)))]
def m_u_is_zero(ex, st, a, c, m): return [(True, uval(ex, a[0]) == 0)]
def m_u_cmp(ex, st, a, c, m):
    x, y = uval(ex, a[0]), uval(ex, a[1]); op = c.rsplit('::', 1)[1]
    return [(True, {'lt': x < y, 'gt': x > y, 'le': x <= y, 'ge': x >= y}[op])]
def m_u_sub(ex, st, a, c, m):
    x, y = uval(ex, a[0]), uval(ex, a[1]); return [(x >= y, U(x - y)), (x < y, PANIC('Uint128 sub underflow'))]
def m_u_checked_sub(ex, st, a, c, m):
    x, y = uval(ex, a[0]), uval(ex, a[1]); return [(x >= y, ok(U(x - y))), (x < y, err(Adt('OverflowError', None, [])))]
def m_u_checked_add(ex, st, a, c, m):
    x, y = uval(ex, a[0]), uval(ex, a[1]); return [(x + y < 2 ** 128, ok(U(x + y))), (x + y >= 2 ** 128, err(Adt('OverflowError', None, [])))]
def m_contains(ex, st, a, c, m):
    l, x = deref(ex, a[0]), deref(ex, a[1]); return [(True, z3.Or(*[struct_eq(e, x) for e in l]) if l else z3.BoolVal(False))]
def m_item_load(ex, st, a, c, m):
    return [(True, ok(clone(st.world['contract_info'], {})))]
def m_map_save(ex, st, a, c, m):
    mapv = deref(ex, a[0]); st.world['log'].append(('save', mapv.fields[0], a[2], clone(deref(ex, a[3]), {}))); return [(True, ok(Adt('tuple', None, [])))]
def m_item_new(ex, st, a, c, m): return [(True, Adt('Item', None, [deref(ex, a[0])]))]
def m_from_u128_into(ex, st, a, c, m): return [(True, U(uval(ex, a[0])))]


MODELS = [
    (r'^uuid::fmt::<impl uuid::Uuid>::hyphenated$', lambda ex, st, a, c, m: [(True, Adt('Hyphenated', None, [deref(ex, a[0]).fields[0]]))]),
    (r'^<Hyphenated as ToString>::to_string$', lambda ex, st, a, c, m: [(True, f_uuid_hyph(deref(ex, a[0]).fields[0]))]),
    (r'^<rust_decimal::Decimal as FromStr>::from_str$', m_dec_from_str), (r'^<rust_decimal::Decimal as From<u128>>::from$', m_dec_from_u128),
    (r'^<rust_decimal::Decimal as FromPrimitive>::from_u128$', m_dec_from_u128_opt),
    (r'^rust_decimal::arithmetic_impls::<impl rust_decimal::Decimal>::checked_mul$', m_dec_mul),
    (r'^rust_decimal::arithmetic_impls::<impl rust_decimal::Decimal>::checked_div$', m_dec_div),
    (r'^rust_decimal::Decimal::fract$', m_dec_fract), (r'^<rust_decimal::Decimal as rust_decimal::prelude::Zero>::zero$', m_dec_zero),
    (r'^<rust_decimal::Decimal as PartialEq>::ne$', m_dec_ne), (r'^<rust_decimal::Decimal as ToPrimitive>::to_u128$', m_dec_to_u128),
    (r'^rust_decimal::Decimal::round_dp_with_strategy$', m_dec_round), (r'^std::option::Option::ok_or$', m_ok_or),
    (r'^Uint128::new$', m_u_new), (r'^Uint128::zero$', m_u_zero), (r'^Uint128::is_zero$', m_u_is_zero), (r'^<(Uint128|u128|&u128) as PartialOrd>::(lt|gt|le|ge)$', m_u_cmp),
    (r'^<Uint128 as std::ops::Sub>::sub$', m_u_sub), (r'^Uint128::checked_sub$', m_u_checked_sub), (r'^Uint128::checked_add$', m_u_checked_add),
    (r'^core::slice::<impl \[.*\]>::contains$', m_contains), (r'^Item::load$', m_item_load), (r'^Item::new$', m_item_new),
    (r'^cw_storage_plus::Map::save$', m_map_save), (r'^<u128 as Into<Uint128>>::into$', m_from_u128_into),
    (r'^<&str as Into<std::string::String>>::into$|^<std::string::String as From<&str>>::from$|^<Uint128 as Clone>::clone$', lambda ex, st, a, c, m: [(True, deref(ex, a[0]))]),
    (r'^<.* as IntoIterator>::into_iter$', m_into_iter), (r'^<.* as Iterator>::map$', m_iter_map), (r'^<.* as Iterator>::collect$', m_collect),
    (r'^to_value$', m_to_value), (r'^Value::as_str$', m_value_as_str),
    (r'^std::vec::Vec::is_empty$|^core::slice::<impl \[.*\]>::is_empty$', m_vec_is_empty),
    (r'^std::string::String::is_empty$', m_str_is_empty),
    (r'^uuid::parser::<impl uuid::Uuid>::parse_str$', m_uuid_parse),
    (r'^Result::is_err$', m_is_err), (r'^std::option::Option::is_some$', m_is_some),
    (r'^std::vec::Vec::new$', m_vec_new), (r'^std::vec::Vec::push$', m_vec_push), (r'^std::vec::Vec::len$', m_vec_len),
    (r'^<.* as Deref>::deref$|^std::string::String::as_str$|^std::string::String::as_bytes$', m_as_bytes),
    (r'^<Result<.*> as Try>::branch$', m_try_branch), (r'^<Result<.*> as FromResidual<.*>>::from_residual$', m_from_residual),
    (r'^Result::map_err$', m_map_err),
    (r'^cw_storage_plus::Map::load$', m_map_load), (r'^cw_storage_plus::Map::remove$', m_map_remove), (r'^cw_storage_plus::Map::new$', m_map_new),
    (r'^<.* as PartialEq>::(eq|ne)$', m_eq),
    (r'^<.* as (Clone|ToOwned)>::(clone|to_owned)$', m_clone),
    (r'^MarkerQuerier::new$', m_marker_new), (r'^MarkerQuerier::marker$', m_marker_query), (r'^<MarkerAccount as TryFrom<.*>>::try_from$', m_marker_tryfrom),
    (r'^cosmwasm_std::StdError::generic_err$', m_generic_err),
    (r'^Response::new$', m_response_new), (r'^Response::add_message$', m_add_message), (r'^Response::add_attributes$', m_add_attributes), (r'^attr$', m_attr),
    (r'^<Uint128 as Into<u128>>::into$|^<u128 as From<u128>>::from$|^Uint128::u128$', m_into_u128),
    (r'^<(S|H|std::string::String|Addr|&str) as Into<.*>>::into$|^<&str as Into<std::string::String>>::into$', lambda ex, st, a, c, m: [(True, deref(ex, a[0]))]),
    (r'^coins$', m_coins), (r'^<u128 as ToString>::to_string$', m_u128_to_string), (r'^<ContractAction as ToString>::to_string$', m_to_string_action),
    (r'^<(std::string::String|Addr|str) as ToString>::to_string$|^Addr::into_string$', m_addr_into_string),
    (r'^Box::new_uninit$', m_box_uninit), (r'^std::boxed::box_assume_init_into_vec_unsafe$', m_box_into_vec),
    (r'^Result::unwrap$|^std::option::Option::unwrap$', m_unwrap),
]


def main():
    text = open('c.mir').read()
    items = mp.parse_items(text)
    ex = Exec(items, '/tmp/spike/repo'); ex.text = text
    # ---- scenario: execute(CancelAsk{id}) on a book holding one symbolic ask under key K ----
    S = lambda n: z3.Const(n, StrS)
    I = lambda n: z3.Int(n)
    results = collections.Counter()
    t0 = time.time()
    for cls in ('Basic', 'Pending', 'Ready'):
        for nfunds in (0, 1):
            K = S('K'); size = I('size'); present = z3.Bool('present')
            klass = {'Basic': Adt('AskOrderClass', 'Basic', []),
                     'Pending': Adt('AskOrderClass', 'Convertible', [Adt('AskOrderStatus', 'PendingIssuerApproval', [])]),
                     'Ready': Adt('AskOrderClass', 'Convertible', [Adt('AskOrderStatus', 'Ready', [Adt('Addr', None, [S('approver')]), Adt('Coin', None, [S('cb_denom'), Adt('Uint128', None, [I('cb_amt')])])])])}[cls]
            ask = Adt('AskOrderV1', None, [K, Adt('Addr', None, [S('owner')]), klass, S('a_base'), S('a_quote'), S('a_price'), Adt('Uint128', None, [size])])
            st = State()
            st.world = {'store': {(lit('ask'), K): (present, ask)}, 'log': []}
            st.pc = [size >= 1, I('cb_amt') >= 0]
            deps = Adt('DepsMut', None, [Opaque('storage'), Opaque('api'), Adt('QuerierWrapper', None, [Opaque('q')])])
            env = Adt('Env', None, [Opaque('block'), Opaque('tx'), Adt('ContractInfo', None, [Adt('Addr', None, [lit('CONTRACT')])])])
            funds = [Adt('Coin', None, [S('f_denom'), Adt('Uint128', None, [I('f_amt')])])][:nfunds]
            info = Adt('MessageInfo', None, [Adt('Addr', None, [S('sender')]), funds])
            msg = Adt('ExecuteMsg', 'CancelAsk', [S('req_id')])
            out = Cell()
            ex.body('execute')
            st.frames.append(Frame(items['execute'][0], [deps, env, info, msg], (out, [])))
            for fin in ex.run(st):
                if fin.outcome[0] == 'infeasible': continue
                if fin.outcome[0] == 'return':
                    r = fin.outcome[1]
                    if r.variant == 'Ok':
                        resp = r.fields[0]
                        kinds = tuple(mm.variant or mm.ty for mm in resp.fields[0])
                        results[(cls, nfunds, 'Ok', kinds, tuple(l[0] for l in fin.world['log']))] += 1
                        # obligation (C05-style): success => sender == owner  &&  req_id == K && present
                        ex.solver.push(); ex.solver.add(*fin.pc)
                        ex.solver.add(z3.Not(z3.And(S('sender') == S('owner'), S('req_id') == K, present, f_uuid_ok(S('req_id')))))
                        results[('OBLIGATION auth', str(ex.solver.check()))] += 1
                        ex.solver.pop()
                    else:
                        e = r.fields[0]
                        results[(cls, nfunds, 'Err', e.variant or e.ty)] += 1
                else:
                    results[(cls, nfunds) + tuple(map(str, fin.outcome[:2]))] += 1
    for k, v in sorted(results.items(), key=str): print(v, k)
    print('solver checks', ex.nchecks, 'solver time %.2fs' % ex.tcheck, 'total %.2fs' % (time.time() - t0))


if __name__ == '__main__':
    main()
