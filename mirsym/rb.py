import z3, time, collections, sys
import mirparse as mp
from exec import *

def main():
    text = open('c.mir').read(); items = mp.parse_items(text)
    ex = Exec(items, '/tmp/spike/repo'); ex.text = text
    S = lambda n: z3.Const(n, StrS); I = lambda n: z3.Int(n)
    B = 10 ** 12
    results = collections.Counter(); t0 = time.time(); obl = collections.Counter()
    for action in ('CancelBid', 'RejectBidSome'):
      for hasfee in (False, True):
        K = S('K'); present = z3.BoolVal(True)
        base_amt, acc_b, acc_q, acc_f, q_amt, fee_amt, c = I('base_amt'), I('acc_b'), I('acc_q'), I('acc_f'), I('q_amt'), I('fee_amt'), I('c')
        price = S('price'); pn, pd = f_dec_n(price), f_dec_d(price)
        inc = I('inc'); owner = S('owner'); qd = S('quote_denom'); bd = S('base_denom')
        fee = some(Adt('Coin', None, [qd, U(fee_amt)])) if hasfee else NONE()
        bid = Adt('BidOrderV3', None, [Adt('Coin', None, [bd, U(base_amt)]), U(acc_b), U(acc_q), U(acc_f), fee, K, Adt('Addr', None, [owner]), price, Adt('Coin', None, [qd, U(q_amt)])])
        ci = Adt('ContractInfoV3', None, [S('name'), S('bind'), bd, [S('conv1')], [qd], [Adt('Addr', None, [S('appr1')])], [Adt('Addr', None, [S('exec1')]), Adt('Addr', None, [S('exec2')])], NONE(), NONE(), [], [], U(I('prec')), U(inc)])
        st = State(); st.world = {'store': {(lit('bid'), K): (present, bid)}, 'log': [], 'contract_info': ci}
        rem_b, rem_q, rem_f = base_amt - acc_b, q_amt - acc_q, fee_amt - acc_f
        inv = [base_amt % inc == 0, f_dec_ok(price), pn > 0, pn < B, z3.Or(pd == 1, pd == 100), inc >= 1, inc < B,
               base_amt >= 1, base_amt < B, acc_b >= 0, acc_b < base_amt, q_amt >= 1, q_amt < B, q_amt * pd == pn * base_amt,
               acc_q >= 0, rem_q * pd == pn * rem_b, f_uuid_ok(K), z3.Not(f_is_empty(K))]
        if hasfee:
            inv += [fee_amt >= 0, fee_amt < B, acc_f >= 0, acc_f <= fee_amt,
                    2 * q_amt * rem_f <= 2 * fee_amt * rem_q + q_amt, 2 * fee_amt * rem_q + q_amt < 2 * q_amt * (rem_f + 1)]   # rem_f == rhu(fee*rem_q/q)
        st.pc = inv + [c >= 0, c < B]
        deps = Adt('DepsMut', None, [Opaque('storage'), Opaque('api'), Adt('QuerierWrapper', None, [Opaque('q')])])
        env = Adt('Env', None, [Opaque('block'), Opaque('tx'), Adt('ContractInfo', None, [Adt('Addr', None, [lit('CONTRACT')])])])
        info = Adt('MessageInfo', None, [Adt('Addr', None, [S('sender')]), []])
        msg = {'CancelBid': Adt('ExecuteMsg', 'CancelBid', [S('req_id')]), 'ExpireBid': Adt('ExecuteMsg', 'ExpireBid', [S('req_id')]),
               'RejectBidNone': Adt('ExecuteMsg', 'RejectBid', [S('req_id'), NONE()]), 'RejectBidSome': Adt('ExecuteMsg', 'RejectBid', [S('req_id'), some(U(c))])}[action]
        out = Cell(); ex.body('execute')
        st.frames.append(Frame(items['execute'][0], [deps, env, info, msg], (out, [])))
        for fin in ex.run(st):
            if fin.outcome[0] == 'infeasible': continue
            if fin.outcome[0] != 'return':
                results[(action, hasfee) + tuple(map(str, fin.outcome[:2]))] += 1; continue
            r = fin.outcome[1]
            if r.variant != 'Ok':
                e = r.fields[0]; results[(action, hasfee, 'Err', e.variant or e.ty)] += 1
                # liveness (C06): owner's cancel / executor's expire of an Inv-bid must not be refused
                if action in ('CancelBid', 'ExpireBid'):
                    F = z3.Solver(); F.set('timeout', 30000); ex_solver_backup = ex.solver; ex.solver = F; ex.solver.push(); ex.solver.add(*fin.pc); ex.solver.add(S('req_id') == K)
                    ex.solver.add(S('sender') == owner if action == 'CancelBid' else S('sender') == S('exec1'))
                    r_ = ex.solver.check(); obl[('C06 liveness refusal reachable?', action, hasfee, e.variant or e.ty, str(r_))] += 1
                    if r_ == z3.sat and not obl.get('shown'):
                        mdl = ex.solver.model(); obl['shown'] = 1
                        print('  witness:', {str(d): mdl[d] for d in mdl.decls() if str(d) in ('base_amt', 'acc_b', 'inc', 'q_amt', 'acc_q')}, 'pn/pd', mdl.eval(pn), mdl.eval(pd))
                    ex.solver.pop(); ex.solver = ex_solver_backup
                continue
            resp = r.fields[0]; msgs = resp.fields[0]
            results[(action, hasfee, 'Ok', tuple(mm.variant or mm.ty for mm in msgs), tuple(l[0] for l in fin.world['log']))] += 1
            # C04-style obligation: total quote paid out == decrease of (rem_q + rem_f) and post bid invariant rem_q' == price*rem_b'
            def amt(m_):
                if m_.variant == 'Send': return uval(ex, m_.fields[1][0].fields[1])
                return None
            if all(mm.variant == 'Send' for mm in msgs):
                paid = sum(amt(mm) for mm in msgs)
                saves = [l for l in fin.world['log'] if l[0] == 'save']
                F = z3.Solver(); F.set('timeout', 30000); ex_solver_backup = ex.solver; ex.solver = F
                ex.solver.push(); ex.solver.add(*fin.pc)
                if saves:
                    nb = saves[-1][3]
                    nrem_q = uval(ex, nb.fields[8].fields[1]) - uval(ex, nb.fields[2]); nrem_b = uval(ex, nb.fields[0].fields[1]) - uval(ex, nb.fields[1])
                    nrem_f = (uval(ex, nb.fields[4].fields[0].fields[1]) - uval(ex, nb.fields[3])) if hasfee else 0
                    good = z3.And(paid == (rem_q + (rem_f if hasfee else 0)) - (nrem_q + nrem_f), nrem_q * pd == pn * nrem_b, nrem_b >= 1)
                else:
                    good = paid == rem_q + (rem_f if hasfee else 0)
                ex.solver.add(z3.Not(good)); t = time.time(); rr = ex.solver.check(); obl[('C01/C04 ledger+inv', str(rr))] += 1; print('   obligation %s %.2fs %s fee=%s msgs=%d saves=%d' % (rr, time.time()-t, action, hasfee, len(msgs), len(saves)), flush=True); obl['t'] = obl.get('t', 0) + time.time() - t
                ex.solver.pop(); ex.solver = ex_solver_backup
    for k, v in sorted(results.items(), key=str): print(v, k)
    for k, v in sorted(obl.items(), key=str): print('OBL', v, k)
    print('unknown feasibility', getattr(ex,'nunknown',0)); print('solver checks', ex.nchecks, 'feasibility time %.2fs' % ex.tcheck, 'total %.2fs' % (time.time() - t0))
main()
