"""Property obligations over path summaries. Each obligation is a list of constraints whose satisfiability TOGETHER WITH the exact path
condition is a violation (unsat = the property holds on that path for every value inside the bounds)."""
import z3
from .engine import Adt, StrS, lit, EMPTY, f_uuid_ok, f_uuid_hyph, f_dec_ok, f_dec_n, f_dec_d, f_addr_ok, f_numstr, f_attr_ok
from .harness import transfers, paid, drawn, restricted, attr_value, attr_values, numstr_arg
from .world import CONTRACT
from . import steps as ST
from .models import f_decstr


class Obl:
    __slots__ = ('name', 'neg', 'info')

    def __init__(self, name, neg, **info):
        self.name, self.neg, self.info = name, list(neg), info


def prove(name, goal, **info):
    return Obl(name, [z3.Not(goal)], **info)


def refute(name, constraints, **info):
    """the conjunction must be unsatisfiable with the path condition"""
    return Obl(name, constraints, **info)


_fresh = [0]


def fresh_str(prefix):
    _fresh[0] += 1
    return z3.Const('%s!%d' % (prefix, _fresh[0]), StrS)


def fresh_int(prefix):
    _fresh[0] += 1
    return z3.Int('%s!%d' % (prefix, _fresh[0]))


def uv(x):
    return x.fields[0]


# ---------------------------------------------------------------- state views
def ask_view(ti, val):
    cls = ti.get(val, 'class')
    v = dict(id=ti.get(val, 'id'), owner=uv(ti.get(val, 'owner')), base=ti.get(val, 'base'), quote=ti.get(val, 'quote'), price=ti.get(val, 'price'),
             size=uv(ti.get(val, 'size')), cls='Basic', approver=None, cb_denom=None, cb_amount=None)
    if cls.variant == 'Convertible':
        st = cls.fields[0]
        if st.variant == 'Ready':
            v['cls'] = 'Ready'
            v['approver'] = uv(ti.get(st, 'approver'))
            cb = ti.get(st, 'converted_base')
            v['cb_denom'], v['cb_amount'] = cb.fields[0], uv(cb.fields[1])
        else:
            v['cls'] = 'Pending'
    return v


def bid_view(ti, val):
    base, quote, fee = ti.get(val, 'base'), ti.get(val, 'quote'), ti.get(val, 'fee')
    v = dict(id=ti.get(val, 'id'), owner=uv(ti.get(val, 'owner')), price=ti.get(val, 'price'), base_denom=base.fields[0], base=uv(base.fields[1]),
             quote_denom=quote.fields[0], quote=uv(quote.fields[1]), acc_b=uv(ti.get(val, 'accumulated_base')), acc_q=uv(ti.get(val, 'accumulated_quote')),
             acc_f=uv(ti.get(val, 'accumulated_fee')), hasfee=fee.variant == 'Some')
    if v['hasfee']:
        v['fee_denom'], v['fee'] = fee.fields[0].fields[0], uv(fee.fields[0].fields[1])
    else:
        v['fee_denom'], v['fee'] = None, z3.IntVal(0)
    v['rem_b'] = v['base'] - v['acc_b']
    v['rem_q'] = v['quote'] - v['acc_q']
    v['rem_f'] = (v['fee'] - v['acc_f']) if v['hasfee'] else z3.IntVal(0)
    return v


def owed(ti, world, D):
    """what the named open orders are owed in denomination D"""
    tot = z3.IntVal(0)
    for e in world.maps['ask']:
        a = ask_view(ti, e.val)
        t = z3.If(a['base'] == D, a['size'], 0)
        if a['cls'] == 'Ready':
            t = t + z3.If(a['cb_denom'] == D, a['cb_amount'], 0)
        tot = tot + z3.If(e.present, t, 0)
    for e in world.maps['bid']:
        if e.fmt != 'BidOrderV3':
            continue
        b = bid_view(ti, e.val)
        tot = tot + z3.If(z3.And(e.present, b['quote_denom'] == D), b['rem_q'] + b['rem_f'], 0)
    return tot


def funds_in(sc, trs, D):
    tot = z3.IntVal(0)
    for f in sc.funds:
        tot = tot + z3.If(f.fields[0] == D, uv(f.fields[1]), 0)
    for t in trs:
        if t.wellformed and t.kind == 'marker':
            tot = tot + z3.If(z3.And(t.to == CONTRACT, t.denom == D), t.amount, 0)
    return tot


def funds_out(trs, D):
    tot = z3.IntVal(0)
    for t in trs:
        if t.wellformed:
            if t.kind == 'bank':
                tot = tot + z3.If(t.denom == D, t.amount, 0)
            else:
                tot = tot + z3.If(z3.And(t.frm == CONTRACT, t.denom == D), t.amount, 0)
    return tot


def in_list(x, lst):
    return z3.Or(*[x == (uv(e) if isinstance(e, Adt) else e) for e in lst]) if lst else z3.BoolVal(False)


def tol_nearest(fee, x, Q, r):
    """r is fee*x/Q rounded to the nearest unit, ties up or (tolerated, 28-digit quotient) down"""
    return z3.And(2 * Q * r <= 2 * fee * x + Q, 2 * fee * x + Q <= 2 * Q * (r + 1))


def rhu_def(n, d, r):
    """r == round-half-up(n/d) for n >= 0, d > 0 (always uniquely satisfiable)"""
    return z3.And(2 * d * r <= 2 * n + d, 2 * n + d < 2 * d * (r + 1))


def floor_def(n, d, q, rem):
    return z3.And(n == q * d + rem, rem >= 0, rem < d)


def euclid_vars(eng, n, d):
    """(defs, q, rem): the Euclidean decomposition of n by d, sharing the engine's variables for the same term pair when the code computed it"""
    hit = eng._euclid.get((n.get_id(), d.get_id()))
    if hit is not None and z3.eq(hit[0], n) and z3.eq(hit[1], d):
        q, rem = hit[2], hit[3]
    else:
        q, rem = fresh_int('q'), fresh_int('rem')
    return [floor_def(n, d, q, rem)], q, rem


def matched(entry, rid):
    return z3.And(entry.present, rid == entry.key)


# ---------------------------------------------------------------- C05 authorization
def c05(sc, req, path):
    if path.kind != 'ok':
        return
    ti, kind, sender = sc.ti, req['kind'], req['sender']
    execs, apprs = sc.cfgf('executors'), sc.cfgf('approvers')
    if kind == 'CancelAsk':
        goal = z3.Or(*[z3.And(matched(e, req['id']), sender == ask_view(ti, e.val)['owner']) for e in sc.world.maps['ask']])
        yield prove('auth_cancel_ask_owner_only', goal)
    elif kind == 'CancelBid':
        goal = z3.Or(*[z3.And(matched(e, req['id']), sender == bid_view(ti, e.val)['owner']) for e in sc.world.maps['bid']])
        yield prove('auth_cancel_bid_owner_only', goal)
    elif kind == 'ApproveAsk':
        yield prove('auth_approve_approver_only', in_list(sender, apprs))
    elif kind in ('CreateAsk', 'CreateBid'):
        return
    else:
        yield prove('auth_executor_only', in_list(sender, execs))


# ---------------------------------------------------------------- C10 transfer mechanism
def c10(sc, req, path):
    if path.kind != 'ok':
        return
    kind, sender = req['kind'], req['sender']
    pulls = kind in ('CreateAsk', 'CreateBid', 'ApproveAsk')
    for i, t in enumerate(transfers(path)):
        if t.kind == 'other' or not t.wellformed:
            yield refute('message_kind', [z3.BoolVal(True)], msg_index=i)
            continue
        if t.kind == 'bank':
            yield prove('bank_send_positive_unrestricted', z3.And(t.amount > 0, z3.Not(restricted(t.denom))), msg_index=i, mech='bank')
        else:
            src_ok = z3.Or(t.frm == CONTRACT, z3.And(t.frm == sender, t.to == CONTRACT)) if pulls else (t.frm == CONTRACT)
            yield prove('marker_transfer_positive_restricted_admin', z3.And(t.amount > 0, restricted(t.denom), t.admin == CONTRACT, src_ok), msg_index=i, mech='marker')


# ---------------------------------------------------------------- C04 cancel / expire / reject
def reversal_target(sc, req, path):
    """(ns, index, pre-entry, post-entry) of the order named by the request on an ok path"""
    ns = 'ask' if req['kind'] in ST.ASK_KINDS else 'bid'
    return ns


def c04(sc, req, path):
    ti, kind = sc.ti, req['kind']
    if path.kind != 'ok' or kind not in ST.ASK_KINDS + ST.BID_KINDS:
        return
    trs = transfers(path)
    X, D = fresh_str('X'), fresh_str('D')
    inc = sc.sym['cfg.increment']
    base_denom = sc.cfgf('base_denom')
    if kind in ST.ASK_KINDS:
        for i, e in enumerate(sc.world.maps['ask']):
            a = ask_view(ti, e.val)
            post = path.world.maps['ask'][i]
            pa = ask_view(ti, post.val)
            m = matched(e, req['id'])
            c = req.get('cancel_size')
            c_eff = a['size'] if c is None else c
            spec = z3.If(z3.And(X == a['owner'], D == a['base']), c_eff, 0)
            if a['cls'] == 'Ready':
                spec = spec + z3.If(z3.And(X == a['approver'], D == base_denom), c_eff, 0)
            yield refute('ask_reversal_payouts_exact', [m, paid(trs, X, D) != spec], cls=a['cls'])
            rest = a['size'] - c_eff
            good_post = z3.If(rest == 0, z3.Not(post.present), z3.And(post.present, pa['size'] == rest, rest > 0))
            yield refute('ask_reversal_remaining_shrinks_by_returned', [m, z3.Not(good_post)], cls=a['cls'])
            if a['cls'] == 'Ready' and pa['cls'] == 'Ready':
                yield refute('approver_escrow_shrinks_by_returned', [m, post.present, pa['cb_amount'] != a['cb_amount'] - c_eff], cls=a['cls'])
            if c is not None:
                defs, _, rem = euclid_vars(sc.eng, c, inc)
                yield refute('partial_size_positive_lot_multiple_within_remainder', [m] + defs + [z3.Not(z3.And(c >= 1, c <= a['size'], rem == 0))], cls=a['cls'])
    else:
        for i, e in enumerate(sc.world.maps['bid']):
            b = bid_view(ti, e.val)
            post = path.world.maps['bid'][i]
            pb = bid_view(ti, post.val)
            m = matched(e, req['id'])
            c = req.get('cancel_size')
            c_eff = b['rem_b'] if c is None else c
            pn, pd = f_dec_n(b['price']), f_dec_d(b['price'])
            total = paid(trs, b['owner'], b['quote_denom'])
            yield refute('bid_reversal_nobody_else_paid', [m, z3.Not(z3.And(X == b['owner'], D == b['quote_denom'])), paid(trs, X, D) != 0], fee=b['hasfee'])
            # removed: everything that was left is returned; kept: the accumulators grow by exactly what was returned
            removed_ok = z3.And(c_eff == b['rem_b'], total == b['rem_q'] + b['rem_f'])
            d_q, d_f, d_b = pb['acc_q'] - b['acc_q'], pb['acc_f'] - b['acc_f'], pb['acc_b'] - b['acc_b']
            kept_ok = z3.And(c_eff < b['rem_b'], d_b == c_eff, d_q * pd == pn * c_eff, d_q >= 0, d_f >= 0, total == d_q + d_f,
                             pb['acc_f'] <= pb['fee'] if b['hasfee'] else d_f == 0)
            if b['hasfee']:
                kept_ok = z3.And(kept_ok, tol_nearest(b['fee'], pb['rem_q'], b['quote'], pb['rem_f']))
            yield refute('bid_reversal_returns_exactly_cancelled_part', [m, z3.Not(z3.If(post.present, kept_ok, removed_ok))], fee=b['hasfee'])
            if c is not None:
                defs, _, rem = euclid_vars(sc.eng, c, inc)
                yield refute('partial_size_positive_lot_multiple_within_remainder', [m] + defs + [z3.Not(z3.And(c >= 1, c <= b['rem_b'], rem == 0))], fee=b['hasfee'])


# ---------------------------------------------------------------- C06 exit liveness
def c06(sc, req, path):
    ti, kind = sc.ti, req['kind']
    if kind not in ('CancelAsk', 'CancelBid', 'ExpireAsk', 'ExpireBid') or req['spec']['nfunds'] != 0:
        return
    ns = 'ask' if 'Ask' in kind else 'bid'
    execs = sc.cfgf('executors')
    for i, e in enumerate(sc.world.maps[ns]):
        v = ask_view(ti, e.val) if ns == 'ask' else bid_view(ti, e.val)
        who = (req['sender'] == v['owner']) if kind.startswith('Cancel') else in_list(req['sender'], execs)
        legal = [e.present, req['id'] == e.key, who]
        if path.kind in ('err', 'panic'):
            yield refute('exit_never_refused', legal, outcome=path.kind, detail=path.detail, order=ns, cls=v.get('cls'), fee=v.get('hasfee'))
        elif path.kind == 'ok':
            post = path.world.maps[ns][i]
            trs = transfers(path)
            yield refute('exit_removes_order', legal + [post.present], order=ns)
            if ns == 'ask':
                goal = paid(trs, v['owner'], v['base']) >= v['size']
                if v['cls'] == 'Ready':
                    base_denom = sc.cfgf('base_denom')
                    both = z3.And(v['owner'] == v['approver'], v['base'] == base_denom)
                    goal = z3.And(z3.If(both, paid(trs, v['owner'], v['base']) == 2 * v['size'], z3.And(paid(trs, v['owner'], v['base']) >= v['size'], paid(trs, v['approver'], base_denom) >= v['size'])))
                yield refute('exit_returns_whole_escrow', legal + [z3.Not(goal)], order=ns, cls=v['cls'])
            else:
                yield refute('exit_returns_whole_escrow', legal + [paid(trs, v['owner'], v['quote_denom']) != v['rem_q'] + v['rem_f']], order=ns, fee=v['hasfee'])
            for j, t in enumerate(trs):
                if t.wellformed:
                    yield refute('exit_messages_positive', legal + [t.amount <= 0], order=ns, msg_index=j)


# ---------------------------------------------------------------- C08 convertible asks
def c08(sc, req, path):
    ti, kind = sc.ti, req['kind']
    base_denom = sc.cfgf('base_denom')
    if path.kind != 'ok':
        return
    if kind == 'ApproveAsk':
        trs = transfers(path)
        for i, e in enumerate(sc.world.maps['ask']):
            a = ask_view(ti, e.val)
            m = matched(e, req['id'])
            post = path.world.maps['ask'][i]
            pa = ask_view(ti, post.val)
            if a['cls'] != 'Pending':
                yield refute('approve_only_pending', [m], cls=a['cls'])
                continue
            yield refute('approve_by_approver_matching_base_and_size', [m, z3.Not(z3.And(in_list(req['sender'], sc.cfgf('approvers')), req['base'] == base_denom, req['size'] == a['size']))])
            # escrow: exact funds for ordinary denominations, single pull from the sender for restricted markers
            if len(sc.funds) == 1:
                f = sc.funds[0]
                funds_exact = z3.And(f.fields[0] == base_denom, uv(f.fields[1]) == a['size'])
            else:
                funds_exact = z3.BoolVal(False)
            if len(trs) == 1 and trs[0].wellformed and trs[0].kind == 'marker':
                t = trs[0]
                pull_exact = z3.And(t.frm == req['sender'], t.to == CONTRACT, t.admin == CONTRACT, t.denom == base_denom, t.amount == a['size'])
            else:
                pull_exact = z3.BoolVal(False)
            escrow = z3.If(restricted(base_denom), z3.And(len(sc.funds) == 0, pull_exact), z3.And(funds_exact, len(trs) == 0))
            yield refute('approve_escrow_exact', [m, z3.Not(escrow)])
            if pa['cls'] != 'Ready':
                yield refute('approve_records_ready', [m])
            else:
                same = z3.And(post.present, pa['approver'] == req['sender'], pa['cb_denom'] == base_denom, pa['cb_amount'] == a['size'], pa['size'] == a['size'],
                              pa['owner'] == a['owner'], pa['base'] == a['base'], pa['quote'] == a['quote'], pa['price'] == a['price'], pa['id'] == a['id'])
                yield refute('approve_records_ready', [m, z3.Not(same)])
    # the Ready clause of Inv is re-established by every operation that keeps the ask
    for i, e in enumerate(path.world.maps['ask']):
        pa = ask_view(ti, e.val)
        if pa['cls'] == 'Ready':
            yield refute('approver_escrow_tracks_remaining_size', [e.present, z3.Not(z3.And(pa['cb_amount'] == pa['size'], pa['cb_denom'] == base_denom))], kind=kind)
    if kind == 'ExecuteMatch':
        for i, e in enumerate(sc.world.maps['ask']):
            a = ask_view(ti, e.val)
            if a['cls'] == 'Pending':
                yield refute('pending_never_matched', [matched(e, req['ask_id'])])


# ---------------------------------------------------------------- C01 escrow solvency (local ledger step)
def c01(sc, req, path):
    if path.kind != 'ok':
        return
    ti = sc.ti
    trs = transfers(path)
    D = fresh_str('D')
    before, after = owed(ti, sc.world, D), owed(ti, path.world, D)
    yield refute('ledger_step_balanced', [funds_in(sc, trs, D) - funds_out(trs, D) != after - before], kind=req['kind'])
    # per order: an order that left the book is owed nothing more; one that stays has non-negative remainders
    for ns in ('ask', 'bid'):
        for i, e in enumerate(path.world.maps[ns]):
            if ns == 'ask':
                a = ask_view(ti, e.val)
                nonneg = a['size'] >= 1
            else:
                b = bid_view(ti, e.val)
                nonneg = z3.And(b['rem_b'] >= 1, b['rem_q'] >= 0, b['rem_f'] >= 0)
            yield refute('open_order_remainders_positive', [e.present, z3.Not(nonneg)], kind=req['kind'], order=ns)


# ---------------------------------------------------------------- match: shared definitions
def match_defs(sc, req, a, b):
    """total definitional variables for a match of `s` at price p between ask view a and bid view b:
    returns (constraints, vars) — constraints are always satisfiable (Euclid / rounding definitions)."""
    s, xn, xd = req['size'], req['pn'], req['pd']
    bn, bd = f_dec_n(b['price']), f_dec_d(b['price'])
    v = {}
    cs = []
    # decimals share a constant denominator, so floor / half-up have closed forms (z3 div/mod by a constant)
    v['g'], v['g_rem'] = (xn * s) / xd, (xn * s) % xd
    v['g2'], v['g2_rem'] = (bn * s) / bd, (bn * s) % bd
    v['improved'] = xn * bd < bn * xd
    afi = sc.cfgf('ask_fee_info')
    if afi.variant == 'Some':
        rate = sc.ti.get(afi.fields[0], 'rate')
        rn, rd = f_dec_n(rate), f_dec_d(rate)
        v['askfee'] = (2 * rn * v['g'] + rd) / (2 * rd)
        v['askfee_acct'] = uv(sc.ti.get(afi.fields[0], 'account'))
    else:
        v['askfee'], v['askfee_acct'] = z3.IntVal(0), None
    bfi = sc.cfgf('bid_fee_info')
    v['bidfee_acct'] = uv(sc.ti.get(bfi.fields[0], 'account')) if bfi.variant == 'Some' else None
    if b['hasfee']:
        v['n1'] = b['fee'] * (b['rem_q'] - v['g'])          # numerators of the pro-rata fee still needed after spending g (resp. g2) of quote
        v['n2'] = b['fee'] * (b['rem_q'] - v['g2'])
    return cs, v


def fee_witness(path, b, v):
    """(r1, r2, cond): the values the path itself computed for the two pro-rata roundings, offered as witnesses of the statement's
    "nearest unit (lower neighbour tolerated at an exact tie)"; cond states that they are such values for the oracle's own numerators."""
    if not b['hasfee']:
        return z3.IntVal(0), z3.IntVal(0), z3.BoolVal(True), []
    rs = [r for (_, _, r) in path.world.ties]
    Q = b['quote']
    if len(rs) >= 2:
        r1, r2 = rs[0], rs[1]
        return r1, r2, z3.And(tol_nearest(b['fee'], b['rem_q'] - v['g'], Q, r1), z3.Implies(v['improved'], tol_nearest(b['fee'], b['rem_q'] - v['g2'], Q, r2))), []
    if len(rs) == 1:
        r1 = rs[0]
        return r1, r1, z3.And(tol_nearest(b['fee'], b['rem_q'] - v['g'], Q, r1), z3.Not(v['improved'])), []
    # the path never formed the quotient: fall back to the exact half-up values (closed form needs a symbolic divisor: definitional variables)
    r1, r2 = fresh_int('r1'), fresh_int('r2')
    return r1, r2, z3.BoolVal(True), [rhu_def(v['n1'], Q, r1), rhu_def(v['n2'], Q, r2)]


def match_spec(sc, req, a, b, v, X, D, r1, r2):
    """net amount the statement of C02 says account X receives in denomination D; r1 / r2: fee still needed for the bid after the fill at the
    execution price / at the bid's price (nearest unit of the pro-rata value; the caller proves they are)"""
    s = req['size']
    base_denom = sc.cfgf('base_denom')
    qd = b['quote_denom']
    spec = z3.If(z3.And(X == b['owner'], D == base_denom), s, 0)
    seller = a['owner'] if a['cls'] == 'Basic' else a['approver']
    spec = spec + z3.If(z3.And(X == seller, D == qd), v['g'] - v['askfee'], 0)
    if a['cls'] == 'Ready':
        spec = spec + z3.If(z3.And(X == a['approver'], D == a['base']), s, 0)
    if v['askfee_acct'] is not None:
        spec = spec + z3.If(z3.And(X == v['askfee_acct'], D == qd), v['askfee'], 0)
    if b['hasfee']:
        bidfee = b['rem_f'] - r1
        if v['bidfee_acct'] is not None:
            spec = spec + z3.If(z3.And(X == v['bidfee_acct'], D == qd), bidfee, 0)
        else:
            spec = spec + z3.If(bidfee == 0, 0, -1000000007)        # no fee account configured: only a zero fee can be "paid"
        refund_fee = r1 - r2
    else:
        refund_fee = z3.IntVal(0)
    spec = spec + z3.If(z3.And(v['improved'], X == b['owner'], D == qd), (v['g2'] - v['g']) + refund_fee, 0)
    return spec


def match_views(sc, req, path):
    ti = sc.ti
    for i, ea in enumerate(sc.world.maps['ask']):
        for j, eb in enumerate(sc.world.maps['bid']):
            a, b = ask_view(ti, ea.val), bid_view(ti, eb.val)
            m = z3.And(matched(ea, req['ask_id']), matched(eb, req['bid_id']))
            yield i, j, ea, eb, a, b, m


# ---------------------------------------------------------------- C02 match settlement
def c02(sc, req, path):
    if path.kind != 'ok' or req['kind'] != 'ExecuteMatch':
        return
    ti = sc.ti
    trs = transfers(path)
    for i, j, ea, eb, a, b, m in match_views(sc, req, path):
        if a['cls'] == 'Pending':
            continue
        cs, v = match_defs(sc, req, a, b)
        # every payout is drawn from the contract
        for k, t in enumerate(trs):
            if t.wellformed and t.kind == 'marker':
                yield refute('payout_drawn_from_contract', [m, t.frm != CONTRACT], msg_index=k)
        X, D = fresh_str('X'), fresh_str('D')
        r1, r2, wit, wdefs = fee_witness(path, b, v)
        cs = cs + wdefs
        yield refute('match_net_payouts_exact', [m] + cs + [z3.Or(z3.Not(wit), paid(trs, X, D) != match_spec(sc, req, a, b, v, X, D, r1, r2))], cls=a['cls'], bidfee=b['hasfee'])
        # remaining amounts fall by exactly these quantities
        pa_e, pb_e = path.world.maps['ask'][i], path.world.maps['bid'][j]
        pa, pb = ask_view(ti, pa_e.val), bid_view(ti, pb_e.val)
        s = req['size']
        ask_ok = z3.If(a['size'] == s, z3.Not(pa_e.present), z3.And(pa_e.present, pa['size'] == a['size'] - s))
        yield refute('match_ask_remaining_falls_by_size', [m, z3.Not(ask_ok)], cls=a['cls'])
        spent_q = z3.If(v['improved'], v['g2'], v['g'])
        kept = z3.And(pb_e.present, pb['acc_b'] == b['acc_b'] + s, pb['acc_q'] == b['acc_q'] + spent_q)
        if b['hasfee']:
            kept = z3.And(kept, wit, pb['rem_f'] == z3.If(v['improved'], r2, r1))
        bid_ok = z3.If(b['rem_b'] == s, z3.Not(pb_e.present), kept)
        yield refute('match_bid_remaining_falls_by_fill', [m] + cs + [z3.Not(bid_ok)], bidfee=b['hasfee'])


# ---------------------------------------------------------------- C03 eligibility
def c03(sc, req, path):
    if req['kind'] != 'ExecuteMatch':
        return
    ti = sc.ti
    spec = req['spec']
    execs = sc.cfgf('executors')
    s, xn, xd, price = req['size'], req['pn'], req['pd'], req['price']
    if path.kind == 'ok':
        if spec['nfunds'] != 0:
            yield refute('match_refused_with_funds', [z3.BoolVal(True)])
        # both orders on the book under the given ids
        on_book = z3.Or(*[m for *_, m in match_views(sc, req, path)])
        yield prove('match_orders_on_book', on_book)
        yield prove('match_executor_only', in_list(req['sender'], execs))
    for i, j, ea, eb, a, b, m in match_views(sc, req, path):
        an, ad = f_dec_n(a['price']), f_dec_d(a['price'])
        bn, bd = f_dec_n(b['price']), f_dec_d(b['price'])
        grem, g2rem = (xn * s) % xd, (bn * s) % bd
        defs = []
        improved = xn * bd < bn * xd
        E = z3.And(a['quote'] == b['quote_denom'], an * bd <= bn * ad, f_dec_ok(price), z3.Or(xn * ad == an * xd, xn * bd == bn * xd),
                   s >= 1, s <= a['size'], s <= b['rem_b'], grem == 0, z3.Implies(improved, g2rem == 0))
        if path.kind == 'ok':
            if a['cls'] == 'Pending':
                yield refute('pending_never_matched', [m])
            yield refute('match_only_if_eligible', [m] + defs + [z3.Not(E)], cls=a['cls'])
            # limit-price protection in value terms
            yield refute('limit_prices_respected', [m, z3.Not(z3.And(xn * ad >= an * xd, xn * bd <= bn * xd))])
        elif path.kind in ('err', 'panic') and spec['nfunds'] == 0 and a['cls'] != 'Pending':
            canonical = z3.And(f_uuid_ok(req['ask_id']), f_uuid_hyph(req['ask_id']) == req['ask_id'], f_uuid_ok(req['bid_id']), f_uuid_hyph(req['bid_id']) == req['bid_id'])
            fees_payable = z3.BoolVal(True) if (not b['hasfee'] or sc.cfgf('bid_fee_info').variant == 'Some') else z3.BoolVal(False)
            legal = [m, in_list(req['sender'], execs), canonical, price != EMPTY, fees_payable] + defs + [E]
            yield refute('eligible_match_is_carried_out', legal, outcome=path.kind, detail=path.detail, cls=a['cls'], bidfee=b['hasfee'])


# ---------------------------------------------------------------- C09 fee exactness
def c09(sc, req, path):
    ti, kind = sc.ti, req['kind']
    if path.kind != 'ok':
        return
    if kind == 'CreateBid':
        # stored fee == rhu(rate * price*size)
        new = [e for e in path.world.maps['bid'][len(sc.world.maps['bid']):]]
        bfi = sc.cfgf('bid_fee_info')
        for e in new:
            b = bid_view(ti, e.val)
            r = fresh_int('fee')
            if bfi.variant == 'Some':
                rate = ti.get(bfi.fields[0], 'rate')
                rn, rd = f_dec_n(rate), f_dec_d(rate)
                yield refute('bid_fee_is_rate_times_total_half_up', [rhu_def(rn * b['quote'], rd, r), z3.Not(z3.And(b['fee'] == r, b['fee_denom'] == b['quote_denom'] if b['hasfee'] else True))], reqfee=b['hasfee'])
            else:
                yield refute('bid_fee_is_rate_times_total_half_up', [b['fee'] != 0], reqfee=b['hasfee'])
            # escrow demanded == total + fee
            trs = transfers(path)
            D = b['quote_denom']
            yield refute('bid_escrow_is_total_plus_fee', [funds_in(sc, trs, D) != b['quote'] + b['fee']], reqfee=b['hasfee'])
    if kind == 'ExecuteMatch':
        trs = transfers(path)
        for i, j, ea, eb, a, b, m in match_views(sc, req, path):
            if a['cls'] == 'Pending':
                continue
            cs, v = match_defs(sc, req, a, b)
            av = attr_value(path, 'ask_fee')
            bv = attr_value(path, 'bid_fee')
            if av is not None and numstr_arg(av) is not None:
                yield refute('ask_fee_is_rate_times_gross_half_up', [m] + cs + [numstr_arg(av) != v['askfee']], cls=a['cls'])
            else:
                yield refute('ask_fee_is_rate_times_gross_half_up', [m])
    # pro-rata clause of Inv_bid re-established on every bid that stays on the book
    for e in path.world.maps['bid']:
        if e.fmt != 'BidOrderV3':
            continue
        b = bid_view(ti, e.val)
        if b['hasfee']:
            good = z3.And(b['acc_f'] >= 0, b['acc_f'] <= b['fee'], tol_nearest(b['fee'], b['rem_q'], b['quote'], b['rem_f']))
            yield refute('fee_held_is_pro_rata_of_unspent_quote', [e.present, z3.Not(good)], kind=kind)
    # a bid that leaves the book has had its whole fee paid out or returned (C01's "zero once closed"), checked in the ledger step (C01)


# ---------------------------------------------------------------- C17 response attributes
ACTION = {'CancelAsk': 'cancel_ask', 'CancelBid': 'cancel_bid', 'ExpireAsk': 'expire_ask', 'ExpireBid': 'expire_bid', 'RejectAskNone': 'reject_ask', 'RejectAskSome': 'reject_ask',
          'RejectBidNone': 'reject_bid', 'RejectBidSome': 'reject_bid', 'ApproveAsk': 'approve_ask', 'CreateAsk': 'create_ask', 'CreateBid': 'create_bid',
          'ExecuteMatch': 'execute', 'ModifyContract': 'modify_contract'}


def c17(sc, req, path):
    if path.kind != 'ok':
        return
    ti, kind = sc.ti, req['kind']
    act = attr_values(path, 'action')
    if len(act) != 1:
        yield refute('action_attribute_once', [z3.BoolVal(True)])
    else:
        yield prove('action_names_request_kind', act[0] == lit(ACTION[kind]), kind=kind)
    trs = transfers(path)
    if kind in ST.ASK_KINDS + ST.BID_KINDS + ['ApproveAsk', 'CreateAsk', 'CreateBid']:
        idv = attr_value(path, 'id')
        yield (prove('id_attribute_names_order', idv == req['id']) if idv is not None else refute('id_attribute_names_order', [z3.BoolVal(True)]))
    if kind in ('ExpireAsk', 'ExpireBid', 'RejectAskNone', 'RejectAskSome', 'RejectBidNone', 'RejectBidSome', 'CancelBid'):
        ns = 'ask' if 'Ask' in kind else 'bid'
        rs, oo = attr_value(path, 'reverse_size'), attr_value(path, 'order_open')
        rsn = numstr_arg(rs) if rs is not None else None
        for i, e in enumerate(sc.world.maps[ns]):
            m = matched(e, req['id'])
            post = path.world.maps[ns][i]
            if ns == 'ask':
                a = ask_view(ti, e.val)
                returned = paid(trs, a['owner'], a['base'])
                if a['cls'] == 'Ready':
                    returned = z3.If(z3.And(a['owner'] == a['approver'], a['base'] == sc.cfgf('base_denom')), returned / 2, returned)
                delta = a['size'] - z3.If(post.present, ask_view(ti, post.val)['size'], 0)
            else:
                b = bid_view(ti, e.val)
                delta = b['rem_b'] - z3.If(post.present, bid_view(ti, post.val)['rem_b'], 0)
                returned = None
            if rsn is None:
                yield refute('reverse_size_is_size_returned', [m])
            else:
                yield refute('reverse_size_is_size_returned', [m, rsn != delta], order=ns)
            if oo is None:
                yield refute('order_open_flag_truthful', [m])
            else:
                yield refute('order_open_flag_truthful', [m, z3.Not(z3.If(post.present, oo == lit('true'), oo == lit('false')))], order=ns)
    if kind == 'ExecuteMatch':
        for i, j, ea, eb, a, b, m in match_views(sc, req, path):
            if a['cls'] == 'Pending':
                continue
            cs, v = match_defs(sc, req, a, b)
            ai, bi, sz, pr = attr_value(path, 'ask_id'), attr_value(path, 'bid_id'), attr_value(path, 'size'), attr_value(path, 'price')
            af, bf = attr_value(path, 'ask_fee'), attr_value(path, 'bid_fee')
            ok_ids = z3.And(ai == req['ask_id'], bi == req['bid_id']) if ai is not None and bi is not None else z3.BoolVal(False)
            yield refute('match_ids_reported', [m, z3.Not(ok_ids)])
            szn = numstr_arg(sz) if sz is not None else None
            yield refute('match_size_reported', [m, (szn != req['size']) if szn is not None else z3.BoolVal(True)])
            if pr is not None and z3.is_app(pr) and pr.decl().name() == 'decstr':
                yield refute('match_price_reported_numerically', [m, pr.arg(0) * req['pd'] != req['pn'] * pr.arg(1)])
            else:
                yield refute('match_price_reported_numerically', [m])
            afn = numstr_arg(af) if af is not None else None
            bfn = numstr_arg(bf) if bf is not None else None
            qd = b['quote_denom']
            # what was actually paid to the fee accounts (net of coincidences is not separable; compare with the spec amounts instead)
            if afn is None:
                yield refute('ask_fee_reported', [m])
            else:
                yield refute('ask_fee_reported', [m] + cs + [afn != v['askfee']])
            if bfn is None:
                yield refute('bid_fee_reported', [m])
            elif b['hasfee']:
                r1, r2, wit, wdefs = fee_witness(path, b, v)
                yield refute('bid_fee_reported', [m] + cs + wdefs + [z3.Not(z3.And(wit, bfn == b['rem_f'] - r1))])
            else:
                yield refute('bid_fee_reported', [m, bfn != 0])
    if kind in ('CreateAsk', 'CreateBid', 'ApproveAsk'):
        ns = 'bid' if kind == 'CreateBid' else 'ask'
        pr, sz = attr_value(path, 'price'), attr_value(path, 'size')
        szn = numstr_arg(sz) if sz is not None else None
        for e in path.world.maps[ns]:
            m = matched(e, req['id'])
            if ns == 'ask':
                a = ask_view(ti, e.val)
                price, size = a['price'], a['size']
            else:
                b = bid_view(ti, e.val)
                price, size = b['price'], b['base']
            yield refute('reported_price_and_size_are_recorded', [m, z3.Not(z3.And(pr == price if pr is not None else False, szn == size if szn is not None else False))], kind=kind)


PROPS = {'C01': c01, 'C02': c02, 'C03': c03, 'C04': c04, 'C05': c05, 'C06': c06, 'C08': c08, 'C09': c09, 'C10': c10, 'C17': c17}
