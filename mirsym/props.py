"""Property obligations over path summaries. Each obligation is a list of constraints whose satisfiability TOGETHER WITH the exact path
condition is a violation (unsat = the property holds on that path for every value inside the bounds)."""
import z3
from .engine import Adt, StrS, lit, EMPTY, f_uuid_ok, f_uuid_hyph, f_dec_ok, f_dec_n, f_dec_d, f_addr_ok, f_numstr, f_attr_ok
from .harness import transfers, paid, drawn, restricted, attr_value, attr_values, numstr_arg
from .world import CONTRACT
from . import steps as ST
from .models import f_decstr


class Obl:
    __slots__ = ('name', 'neg', 'info')

    def __init__(self, name, neg, **info):
        self.name, self.neg, self.info = name, list(neg), info


def prove(name, goal, **info):
    return Obl(name, [z3.Not(goal)], **info)


def refute(name, constraints, **info):
    """the conjunction must be unsatisfiable with the path condition"""
    return Obl(name, constraints, **info)


_fresh = [0]


def fresh_str(prefix):
    _fresh[0] += 1
    return z3.Const('%s!%d' % (prefix, _fresh[0]), StrS)


def fresh_int(prefix):
    _fresh[0] += 1
    return z3.Int('%s!%d' % (prefix, _fresh[0]))


def uv(x):
    return x.fields[0]


# ---------------------------------------------------------------- state views
def ask_view(ti, val):
    cls = ti.get(val, 'class')
    v = dict(id=ti.get(val, 'id'), owner=uv(ti.get(val, 'owner')), base=ti.get(val, 'base'), quote=ti.get(val, 'quote'), price=ti.get(val, 'price'),
             size=uv(ti.get(val, 'size')), cls='Basic', approver=None, cb_denom=None, cb_amount=None)
    if cls.variant == 'Convertible':
        st = cls.fields[0]
        if st.variant == 'Ready':
            v['cls'] = 'Ready'
            v['approver'] = uv(ti.get(st, 'approver'))
            cb = ti.get(st, 'converted_base')
            v['cb_denom'], v['cb_amount'] = cb.fields[0], uv(cb.fields[1])
        else:
            v['cls'] = 'Pending'
    return v


def bid_view(ti, val):
    base, quote, fee = ti.get(val, 'base'), ti.get(val, 'quote'), ti.get(val, 'fee')
    v = dict(id=ti.get(val, 'id'), owner=uv(ti.get(val, 'owner')), price=ti.get(val, 'price'), base_denom=base.fields[0], base=uv(base.fields[1]),
             quote_denom=quote.fields[0], quote=uv(quote.fields[1]), acc_b=uv(ti.get(val, 'accumulated_base')), acc_q=uv(ti.get(val, 'accumulated_quote')),
             acc_f=uv(ti.get(val, 'accumulated_fee')), hasfee=fee.variant == 'Some')
    if v['hasfee']:
        v['fee_denom'], v['fee'] = fee.fields[0].fields[0], uv(fee.fields[0].fields[1])
    else:
        v['fee_denom'], v['fee'] = None, z3.IntVal(0)
    v['rem_b'] = v['base'] - v['acc_b']
    v['rem_q'] = v['quote'] - v['acc_q']
    v['rem_f'] = (v['fee'] - v['acc_f']) if v['hasfee'] else z3.IntVal(0)
    return v


def owed(ti, world, D):
    """what the named open orders are owed in denomination D"""
    tot = z3.IntVal(0)
    for e in world.maps['ask']:
        a = ask_view(ti, e.val)
        t = z3.If(a['base'] == D, a['size'], 0)
        if a['cls'] == 'Ready':
            t = t + z3.If(a['cb_denom'] == D, a['cb_amount'], 0)
        tot = tot + z3.If(e.present, t, 0)
    for e in world.maps['bid']:
        if e.fmt != 'BidOrderV3':
            continue
        b = bid_view(ti, e.val)
        tot = tot + z3.If(z3.And(e.present, b['quote_denom'] == D), b['rem_q'] + b['rem_f'], 0)
    return tot


def funds_in(sc, trs, D):
    tot = z3.IntVal(0)
    for f in sc.funds:
        tot = tot + z3.If(f.fields[0] == D, uv(f.fields[1]), 0)
    for t in trs:
        if t.wellformed and t.kind == 'marker':
            tot = tot + z3.If(z3.And(t.to == CONTRACT, t.denom == D), t.amount, 0)
    return tot


def funds_out(trs, D):
    tot = z3.IntVal(0)
    for t in trs:
        if t.wellformed:
            if t.kind == 'bank':
                tot = tot + z3.If(t.denom == D, t.amount, 0)
            else:
                tot = tot + z3.If(z3.And(t.frm == CONTRACT, t.denom == D), t.amount, 0)
    return tot


def in_list(x, lst):
    return z3.Or(*[x == (uv(e) if isinstance(e, Adt) else e) for e in lst]) if lst else z3.BoolVal(False)


def tol_nearest(fee, x, Q, r):
    """r is fee*x/Q rounded to the nearest unit, ties up or (tolerated, 28-digit quotient) down"""
    return z3.And(2 * Q * r <= 2 * fee * x + Q, 2 * fee * x + Q <= 2 * Q * (r + 1))


def rhu_def(n, d, r):
    """r == round-half-up(n/d) for n >= 0, d > 0 (always uniquely satisfiable)"""
    return z3.And(2 * d * r <= 2 * n + d, 2 * n + d < 2 * d * (r + 1))


def floor_def(n, d, q, rem):
    return z3.And(n == q * d + rem, rem >= 0, rem < d)


def euclid_vars(eng, n, d):
    """(defs, q, rem): the Euclidean decomposition of n by d, sharing the engine's variables for the same term pair when the code computed it"""
    hit = eng._euclid.get((n.get_id(), d.get_id()))
    if hit is not None and z3.eq(hit[0], n) and z3.eq(hit[1], d):
        q, rem = hit[2], hit[3]
    else:
        q, rem = fresh_int('q'), fresh_int('rem')
    return [floor_def(n, d, q, rem)], q, rem


def poly_equal(a, b):
    """syntactic polynomial identity (sum-of-monomials normal form); sound when it says True"""
    if not isinstance(a, z3.ExprRef):
        a = z3.IntVal(a)
    if not isinstance(b, z3.ExprRef):
        b = z3.IntVal(b)
    d = z3.simplify(a - b, som=True, arith_lhs=True, hoist_mul=False)
    return z3.is_int_value(d) and d.as_long() == 0


def matched(entry, rid):
    return z3.And(entry.present, rid == entry.key)


# ---------------------------------------------------------------- C05 authorization
def c05(sc, req, path):
    if path.kind != 'ok':
        return
    ti, kind, sender = sc.ti, req['kind'], req['sender']
    execs, apprs = sc.cfgf('executors'), sc.cfgf('approvers')
    if kind == 'CancelAsk':
        goal = z3.Or(*[z3.And(matched(e, req['id']), sender == ask_view(ti, e.val)['owner']) for e in sc.world.maps['ask']])
        yield prove('auth_cancel_ask_owner_only', goal)
    elif kind == 'CancelBid':
        goal = z3.Or(*[z3.And(matched(e, req['id']), sender == bid_view(ti, e.val)['owner']) for e in sc.world.maps['bid']])
        yield prove('auth_cancel_bid_owner_only', goal)
    elif kind == 'ApproveAsk':
        yield prove('auth_approve_approver_only', in_list(sender, apprs))
    elif kind in ('CreateAsk', 'CreateBid'):
        return
    else:
        yield prove('auth_executor_only', in_list(sender, execs))


# ---------------------------------------------------------------- C10 transfer mechanism
def c10(sc, req, path):
    if path.kind != 'ok':
        return
    kind, sender = req['kind'], req['sender']
    pulls = kind in ('CreateAsk', 'CreateBid', 'ApproveAsk')
    for i, t in enumerate(transfers(path)):
        if t.kind == 'other' or not t.wellformed:
            yield refute('message_kind', [z3.BoolVal(True)], msg_index=i)
            continue
        if t.kind == 'bank':
            yield prove('bank_send_positive_unrestricted', z3.And(t.amount > 0, z3.Not(restricted(t.denom))), msg_index=i, mech='bank')
        else:
            src_ok = z3.Or(t.frm == CONTRACT, z3.And(t.frm == sender, t.to == CONTRACT)) if pulls else (t.frm == CONTRACT)
            yield prove('marker_transfer_positive_restricted_admin', z3.And(t.amount > 0, restricted(t.denom), t.admin == CONTRACT, src_ok), msg_index=i, mech='marker')


# ---------------------------------------------------------------- C04 cancel / expire / reject
def reversal_target(sc, req, path):
    """(ns, index, pre-entry, post-entry) of the order named by the request on an ok path"""
    ns = 'ask' if req['kind'] in ST.ASK_KINDS else 'bid'
    return ns


def c04(sc, req, path):
    ti, kind = sc.ti, req['kind']
    if path.kind != 'ok' or kind not in ST.ASK_KINDS + ST.BID_KINDS:
        return
    trs = transfers(path)
    X, D = fresh_str('X'), fresh_str('D')
    inc = sc.sym['cfg.increment']
    base_denom = sc.cfgf('base_denom')
    if kind in ST.ASK_KINDS:
        for i, e in enumerate(sc.world.maps['ask']):
            a = ask_view(ti, e.val)
            post = path.world.maps['ask'][i]
            pa = ask_view(ti, post.val)
            m = matched(e, req['id'])
            c = req.get('cancel_size')
            c_eff = a['size'] if c is None else c
            spec = z3.If(z3.And(X == a['owner'], D == a['base']), c_eff, 0)
            if a['cls'] == 'Ready':
                spec = spec + z3.If(z3.And(X == a['approver'], D == base_denom), c_eff, 0)
            yield refute('ask_reversal_payouts_exact', [m, paid(trs, X, D) != spec], cls=a['cls'])
            rest = a['size'] - c_eff
            good_post = z3.If(rest == 0, z3.Not(post.present), z3.And(post.present, pa['size'] == rest, rest > 0))
            yield refute('ask_reversal_remaining_shrinks_by_returned', [m, z3.Not(good_post)], cls=a['cls'])
            if a['cls'] == 'Ready' and pa['cls'] == 'Ready':
                yield refute('approver_escrow_shrinks_by_returned', [m, post.present, pa['cb_amount'] != a['cb_amount'] - c_eff], cls=a['cls'])
            if c is not None:
                defs, _, rem = euclid_vars(sc.eng, c, inc)
                yield refute('partial_size_positive_lot_multiple_within_remainder', [m] + defs + [z3.Not(z3.And(c >= 1, c <= a['size'], rem == 0))], cls=a['cls'])
    else:
        for i, e in enumerate(sc.world.maps['bid']):
            b = bid_view(ti, e.val)
            post = path.world.maps['bid'][i]
            pb = bid_view(ti, post.val)
            m = matched(e, req['id'])
            c = req.get('cancel_size')
            c_eff = b['rem_b'] if c is None else c
            pn, pd = f_dec_n(b['price']), f_dec_d(b['price'])
            total = paid(trs, b['owner'], b['quote_denom'])
            yield refute('bid_reversal_nobody_else_paid', [m, z3.Not(z3.And(X == b['owner'], D == b['quote_denom'])), paid(trs, X, D) != 0], fee=b['hasfee'])
            # removed: everything that was left is returned; kept: the accumulators grow by exactly what was returned
            removed_ok = z3.And(c_eff == b['rem_b'], total == b['rem_q'] + b['rem_f'])
            d_q, d_f, d_b = pb['acc_q'] - b['acc_q'], pb['acc_f'] - b['acc_f'], pb['acc_b'] - b['acc_b']
            kept_ok = z3.And(c_eff < b['rem_b'], d_b == c_eff, d_q * pd == pn * c_eff, d_q >= 0, d_f >= 0, total == d_q + d_f,
                             pb['acc_f'] <= pb['fee'] if b['hasfee'] else d_f == 0)
            if b['hasfee']:
                kept_ok = z3.And(kept_ok, tol_nearest(b['fee'], pb['rem_q'], b['quote'], pb['rem_f']))
            yield refute('bid_reversal_returns_exactly_cancelled_part', [m, z3.Not(z3.If(post.present, kept_ok, removed_ok))], fee=b['hasfee'])
            if c is not None:
                defs, _, rem = euclid_vars(sc.eng, c, inc)
                yield refute('partial_size_positive_lot_multiple_within_remainder', [m] + defs + [z3.Not(z3.And(c >= 1, c <= b['rem_b'], rem == 0))], fee=b['hasfee'])


# ---------------------------------------------------------------- C06 exit liveness
def c06(sc, req, path):
    ti, kind = sc.ti, req['kind']
    if kind not in ('CancelAsk', 'CancelBid', 'ExpireAsk', 'ExpireBid') or req['spec']['nfunds'] != 0:
        return
    ns = 'ask' if 'Ask' in kind else 'bid'
    execs = sc.cfgf('executors')
    for i, e in enumerate(sc.world.maps[ns]):
        v = ask_view(ti, e.val) if ns == 'ask' else bid_view(ti, e.val)
        who = (req['sender'] == v['owner']) if kind.startswith('Cancel') else in_list(req['sender'], execs)
        legal = [e.present, req['id'] == e.key, who]
        if path.kind in ('err', 'panic'):
            yield refute('exit_never_refused', legal, outcome=path.kind, detail=path.detail, order=ns, cls=v.get('cls'), fee=v.get('hasfee'))
        elif path.kind == 'ok':
            post = path.world.maps[ns][i]
            trs = transfers(path)
            yield refute('exit_removes_order', legal + [post.present], order=ns)
            if ns == 'ask':
                goal = paid(trs, v['owner'], v['base']) >= v['size']
                if v['cls'] == 'Ready':
                    base_denom = sc.cfgf('base_denom')
                    both = z3.And(v['owner'] == v['approver'], v['base'] == base_denom)
                    goal = z3.And(z3.If(both, paid(trs, v['owner'], v['base']) == 2 * v['size'], z3.And(paid(trs, v['owner'], v['base']) >= v['size'], paid(trs, v['approver'], base_denom) >= v['size'])))
                yield refute('exit_returns_whole_escrow', legal + [z3.Not(goal)], order=ns, cls=v['cls'])
            else:
                yield refute('exit_returns_whole_escrow', legal + [paid(trs, v['owner'], v['quote_denom']) != v['rem_q'] + v['rem_f']], order=ns, fee=v['hasfee'])
            for j, t in enumerate(trs):
                if t.wellformed:
                    yield refute('exit_messages_positive', legal + [t.amount <= 0], order=ns, msg_index=j)
                    # a bank send of a restricted marker coin (or a marker transfer of an ordinary coin) is refused by the chain: the exit would fail
                    deliverable = z3.Not(restricted(t.denom)) if t.kind == 'bank' else restricted(t.denom)
                    yield refute('exit_messages_deliverable', legal + [z3.Not(deliverable)], order=ns, msg_index=j, mech=t.kind)


# ---------------------------------------------------------------- C08 convertible asks
def c08(sc, req, path):
    ti, kind = sc.ti, req['kind']
    base_denom = sc.cfgf('base_denom')
    if path.kind != 'ok':
        return
    if kind == 'ApproveAsk':
        trs = transfers(path)
        for i, e in enumerate(sc.world.maps['ask']):
            a = ask_view(ti, e.val)
            m = matched(e, req['id'])
            post = path.world.maps['ask'][i]
            pa = ask_view(ti, post.val)
            if a['cls'] != 'Pending':
                yield refute('approve_only_pending', [m], cls=a['cls'])
                continue
            yield refute('approve_by_approver_matching_base_and_size', [m, z3.Not(z3.And(in_list(req['sender'], sc.cfgf('approvers')), req['base'] == base_denom, req['size'] == a['size']))])
            # escrow: exact funds for ordinary denominations, single pull from the sender for restricted markers
            if len(sc.funds) == 1:
                f = sc.funds[0]
                funds_exact = z3.And(f.fields[0] == base_denom, uv(f.fields[1]) == a['size'])
            else:
                funds_exact = z3.BoolVal(False)
            if len(trs) == 1 and trs[0].wellformed and trs[0].kind == 'marker':
                t = trs[0]
                pull_exact = z3.And(t.frm == req['sender'], t.to == CONTRACT, t.admin == CONTRACT, t.denom == base_denom, t.amount == a['size'])
            else:
                pull_exact = z3.BoolVal(False)
            escrow = z3.If(restricted(base_denom), z3.And(len(sc.funds) == 0, pull_exact), z3.And(funds_exact, len(trs) == 0))
            yield refute('approve_escrow_exact', [m, z3.Not(escrow)])
            if pa['cls'] != 'Ready':
                yield refute('approve_records_ready', [m])
            else:
                same = z3.And(post.present, pa['approver'] == req['sender'], pa['cb_denom'] == base_denom, pa['cb_amount'] == a['size'], pa['size'] == a['size'],
                              pa['owner'] == a['owner'], pa['base'] == a['base'], pa['quote'] == a['quote'], pa['price'] == a['price'], pa['id'] == a['id'])
                yield refute('approve_records_ready', [m, z3.Not(same)])
    if kind == 'CreateAsk':
        # the class is assigned at creation: plain exactly when the base is the contract's base denomination, otherwise pending approval
        for e in path.world.maps['ask']:
            pa = ask_view(ti, e.val)
            want = (req['base'] == base_denom) if pa['cls'] == 'Basic' else ((req['base'] != base_denom) if pa['cls'] == 'Pending' else z3.BoolVal(False))
            yield refute('class_assigned_at_creation', [matched(e, req['id']), z3.Not(want)], cls=pa['cls'])
        # creating an ask never replaces one that is on the book (an approved ask stays approved, with its approver and escrow)
        from .models import struct_eq
        for i, e in enumerate(sc.world.maps['ask']):
            post = path.world.maps['ask'][i]
            yield refute('existing_ask_not_replaced_by_create', [e.present, z3.Not(z3.And(post.present, struct_eq(e.val, post.val)))], cls=ask_view(ti, e.val)['cls'])
    # the Ready clause of Inv is re-established by every operation that keeps the ask
    for i, e in enumerate(path.world.maps['ask']):
        pa = ask_view(ti, e.val)
        if pa['cls'] == 'Ready':
            yield refute('approver_escrow_tracks_remaining_size', [e.present, z3.Not(z3.And(pa['cb_amount'] == pa['size'], pa['cb_denom'] == base_denom))], kind=kind)
    if kind == 'ExecuteMatch':
        for i, e in enumerate(sc.world.maps['ask']):
            a = ask_view(ti, e.val)
            if a['cls'] == 'Pending':
                yield refute('pending_never_matched', [matched(e, req['ask_id'])])


# ---------------------------------------------------------------- C01 escrow solvency (local ledger step)
def c01(sc, req, path):
    if path.kind != 'ok':
        return
    ti = sc.ti
    trs = transfers(path)
    D = fresh_str('D')
    before, after = owed(ti, sc.world, D), owed(ti, path.world, D)
    yield refute('ledger_step_balanced', [funds_in(sc, trs, D) - funds_out(trs, D) != after - before], kind=req['kind'])
    # per order: an order that left the book is owed nothing more; one that stays has non-negative remainders
    for ns in ('ask', 'bid'):
        for i, e in enumerate(path.world.maps[ns]):
            if ns == 'ask':
                a = ask_view(ti, e.val)
                nonneg = a['size'] >= 1
            else:
                b = bid_view(ti, e.val)
                nonneg = z3.And(b['rem_b'] >= 1, b['rem_q'] >= 0, b['rem_f'] >= 0)
            yield refute('open_order_remainders_positive', [e.present, z3.Not(nonneg)], kind=req['kind'], order=ns)


# ---------------------------------------------------------------- match: shared definitions
def match_defs(sc, req, a, b):
    """total definitional variables for a match of `s` at price p between ask view a and bid view b:
    returns (constraints, vars) — constraints are always satisfiable (Euclid / rounding definitions)."""
    s, xn, xd = req['size'], req['pn'], req['pd']
    bn, bd = f_dec_n(b['price']), f_dec_d(b['price'])
    v = {}
    cs = []
    # decimals share a constant denominator, so floor / half-up have closed forms (z3 div/mod by a constant)
    v['g'], v['g_rem'] = (xn * s) / xd, (xn * s) % xd
    v['g2'], v['g2_rem'] = (bn * s) / bd, (bn * s) % bd
    v['improved'] = xn * bd < bn * xd
    afi = sc.cfgf('ask_fee_info')
    if afi.variant == 'Some':
        rate = sc.ti.get(afi.fields[0], 'rate')
        rn, rd = f_dec_n(rate), f_dec_d(rate)
        v['askfee'] = (2 * rn * (xn * s) + rd * xd) / (2 * rd * xd)      # half-up of rate x price x size
        v['askfee_acct'] = uv(sc.ti.get(afi.fields[0], 'account'))
    else:
        v['askfee'], v['askfee_acct'] = z3.IntVal(0), None
    bfi = sc.cfgf('bid_fee_info')
    v['bidfee_acct'] = uv(sc.ti.get(bfi.fields[0], 'account')) if bfi.variant == 'Some' else None
    if b['hasfee']:
        v['n1'] = b['fee'] * (b['rem_q'] - v['g'])          # numerators of the pro-rata fee still needed after spending g (resp. g2) of quote
        v['n2'] = b['fee'] * (b['rem_q'] - v['g2'])
    return cs, v


def fee_witness(path, b, v):
    """(r1, r2, cond): the values the path itself computed for the two pro-rata roundings, offered as witnesses of the statement's
    "nearest unit (lower neighbour tolerated at an exact tie)"; cond states that they are such values for the oracle's own numerators."""
    if not b['hasfee']:
        return z3.IntVal(0), z3.IntVal(0), z3.BoolVal(True), []
    step_ties = path.world.ties[getattr(path.world, 'ties_mark', 0):]          # this request's own roundings (a history carries earlier ones too)
    rs = [t[2] for t in step_ties]
    Q = b['quote']

    def is_nearest(t, x):
        """tie entry t is the rounding of fee*x/Q: linear match on the recorded factors (a/q)*f, else the defining inequality"""
        fac = t[3] if len(t) > 3 else None
        direct = tol_nearest(b['fee'], x, Q, t[2])
        if fac is None:
            return direct
        a_c, f_c, q_c = fac
        return z3.Or(z3.And(f_c == b['fee'], q_c == Q, a_c == x), direct)
    ts = step_ties
    if len(ts) >= 2:
        r1, r2 = rs[0], rs[1]
        return r1, r2, z3.And(is_nearest(ts[0], b['rem_q'] - v['g']), z3.Implies(v['improved'], is_nearest(ts[1], b['rem_q'] - v['g2']))), []
    if len(ts) == 1:
        r1 = rs[0]
        return r1, r1, z3.And(is_nearest(ts[0], b['rem_q'] - v['g']), z3.Not(v['improved'])), []
    # the path never formed the quotient: fall back to the exact half-up values (closed form needs a symbolic divisor: definitional variables)
    r1, r2 = fresh_int('r1'), fresh_int('r2')
    return r1, r2, z3.BoolVal(True), [rhu_def(v['n1'], Q, r1), rhu_def(v['n2'], Q, r2)]


def match_spec(sc, req, a, b, v, X, D, r1, r2):
    """net amount the statement of C02 says account X receives in denomination D; r1 / r2: fee still needed for the bid after the fill at the
    execution price / at the bid's price (nearest unit of the pro-rata value; the caller proves they are)"""
    s = req['size']
    base_denom = sc.cfgf('base_denom')
    qd = b['quote_denom']
    spec = z3.If(z3.And(X == b['owner'], D == base_denom), s, 0)
    seller = a['owner'] if a['cls'] == 'Basic' else a['approver']
    spec = spec + z3.If(z3.And(X == seller, D == qd), v['g'] - v['askfee'], 0)
    if a['cls'] == 'Ready':
        spec = spec + z3.If(z3.And(X == a['approver'], D == a['base']), s, 0)
    if v['askfee_acct'] is not None:
        spec = spec + z3.If(z3.And(X == v['askfee_acct'], D == qd), v['askfee'], 0)
    if b['hasfee']:
        bidfee = b['rem_f'] - r1
        if v['bidfee_acct'] is not None:
            spec = spec + z3.If(z3.And(X == v['bidfee_acct'], D == qd), bidfee, 0)
        else:
            spec = spec + z3.If(bidfee == 0, 0, -1000000007)        # no fee account configured: only a zero fee can be "paid"
        refund_fee = r1 - r2
    else:
        refund_fee = z3.IntVal(0)
    spec = spec + z3.If(z3.And(v['improved'], X == b['owner'], D == qd), (v['g2'] - v['g']) + refund_fee, 0)
    return spec


def match_views(sc, req, path):
    ti = sc.ti
    for i, ea in enumerate(sc.world.maps['ask']):
        for j, eb in enumerate(sc.world.maps['bid']):
            a, b = ask_view(ti, ea.val), bid_view(ti, eb.val)
            m = z3.And(matched(ea, req['ask_id']), matched(eb, req['bid_id']))
            yield i, j, ea, eb, a, b, m


# ---------------------------------------------------------------- C02 match settlement
def c02(sc, req, path):
    if path.kind != 'ok' or req['kind'] != 'ExecuteMatch':
        return
    ti = sc.ti
    trs = transfers(path)
    for i, j, ea, eb, a, b, m in match_views(sc, req, path):
        if a['cls'] == 'Pending':
            continue
        cs, v = match_defs(sc, req, a, b)
        # every payout is drawn from the contract
        for k, t in enumerate(trs):
            if t.wellformed and t.kind == 'marker':
                yield refute('payout_drawn_from_contract', [m, t.frm != CONTRACT], msg_index=k)
        X, D = fresh_str('X'), fresh_str('D')
        r1, r2, wit, wdefs = fee_witness(path, b, v)
        cs = cs + wdefs
        yield refute('match_net_payouts_exact', [m] + cs + [z3.Or(z3.Not(wit), paid(trs, X, D) != match_spec(sc, req, a, b, v, X, D, r1, r2))], cls=a['cls'], bidfee=b['hasfee'])
        # remaining amounts fall by exactly these quantities
        pa_e, pb_e = path.world.maps['ask'][i], path.world.maps['bid'][j]
        pa, pb = ask_view(ti, pa_e.val), bid_view(ti, pb_e.val)
        s = req['size']
        ask_ok = z3.If(a['size'] == s, z3.Not(pa_e.present), z3.And(pa_e.present, pa['size'] == a['size'] - s))
        yield refute('match_ask_remaining_falls_by_size', [m, z3.Not(ask_ok)], cls=a['cls'])
        spent_q = z3.If(v['improved'], v['g2'], v['g'])
        kept = z3.And(pb_e.present, pb['acc_b'] == b['acc_b'] + s, pb['acc_q'] == b['acc_q'] + spent_q)
        if b['hasfee']:
            kept = z3.And(kept, wit, pb['rem_f'] == z3.If(v['improved'], r2, r1))
        bid_ok = z3.If(b['rem_b'] == s, z3.Not(pb_e.present), kept)
        yield refute('match_bid_remaining_falls_by_fill', [m] + cs + [z3.Not(bid_ok)], bidfee=b['hasfee'])


# ---------------------------------------------------------------- C03 eligibility
def c03(sc, req, path):
    if req['kind'] != 'ExecuteMatch':
        return
    ti = sc.ti
    spec = req['spec']
    execs = sc.cfgf('executors')
    s, xn, xd, price = req['size'], req['pn'], req['pd'], req['price']
    if path.kind == 'ok':
        if spec['nfunds'] != 0:
            yield refute('match_refused_with_funds', [z3.BoolVal(True)])
        # both orders on the book under the given ids
        on_book = z3.Or(*[m for *_, m in match_views(sc, req, path)])
        yield prove('match_orders_on_book', on_book)
        yield prove('match_executor_only', in_list(req['sender'], execs))
    for i, j, ea, eb, a, b, m in match_views(sc, req, path):
        an, ad = f_dec_n(a['price']), f_dec_d(a['price'])
        bn, bd = f_dec_n(b['price']), f_dec_d(b['price'])
        grem, g2rem = (xn * s) % xd, (bn * s) % bd
        defs = []
        improved = xn * bd < bn * xd
        E = z3.And(a['quote'] == b['quote_denom'], an * bd <= bn * ad, f_dec_ok(price), z3.Or(xn * ad == an * xd, xn * bd == bn * xd),
                   s >= 1, s <= a['size'], s <= b['rem_b'], grem == 0, z3.Implies(improved, g2rem == 0))
        if path.kind == 'ok':
            if a['cls'] == 'Pending':
                yield refute('pending_never_matched', [m])
            yield refute('match_only_if_eligible', [m] + defs + [z3.Not(E)], cls=a['cls'])
            # limit-price protection in value terms
            yield refute('limit_prices_respected', [m, z3.Not(z3.And(xn * ad >= an * xd, xn * bd <= bn * xd))])
        elif path.kind in ('err', 'panic') and spec['nfunds'] == 0 and a['cls'] != 'Pending':
            canonical = z3.And(f_uuid_ok(req['ask_id']), f_uuid_hyph(req['ask_id']) == req['ask_id'], f_uuid_ok(req['bid_id']), f_uuid_hyph(req['bid_id']) == req['bid_id'])
            # the configured fees are payable: no fee on the bid, a fee account to pay it to, or nothing left of the fee to be due
            fees_payable = z3.BoolVal(True) if (not b['hasfee'] or sc.cfgf('bid_fee_info').variant == 'Some') else (b['rem_f'] == 0)
            legal = [m, in_list(req['sender'], execs), canonical, price != EMPTY, fees_payable] + defs + [E]
            yield refute('eligible_match_is_carried_out', legal, outcome=path.kind, detail=path.detail, cls=a['cls'], bidfee=b['hasfee'])


# ---------------------------------------------------------------- C09 fee exactness
def c09(sc, req, path):
    ti, kind = sc.ti, req['kind']
    if path.kind != 'ok':
        return
    if kind == 'CreateBid':
        # stored fee == rhu(rate * price*size)
        new = [e for e in path.world.maps['bid'][len(sc.world.maps['bid']):]]
        bfi = sc.cfgf('bid_fee_info')
        for e in new:
            b = bid_view(ti, e.val)
            r = fresh_int('fee')
            if bfi.variant == 'Some':
                rate = ti.get(bfi.fields[0], 'rate')
                rn, rd = f_dec_n(rate), f_dec_d(rate)
                yield refute('bid_fee_is_rate_times_total_half_up', [rhu_def(rn * b['quote'], rd, r), z3.Not(z3.And(b['fee'] == r, b['fee_denom'] == b['quote_denom'] if b['hasfee'] else True))], reqfee=b['hasfee'])
            else:
                yield refute('bid_fee_is_rate_times_total_half_up', [b['fee'] != 0], reqfee=b['hasfee'])
            # escrow demanded == total + fee
            trs = transfers(path)
            D = b['quote_denom']
            yield refute('bid_escrow_is_total_plus_fee', [funds_in(sc, trs, D) != b['quote'] + b['fee']], reqfee=b['hasfee'])
    if kind == 'ExecuteMatch':
        trs = transfers(path)
        for i, j, ea, eb, a, b, m in match_views(sc, req, path):
            if a['cls'] == 'Pending':
                continue
            cs, v = match_defs(sc, req, a, b)
            X, D = fresh_str('X'), fresh_str('D')
            r1, r2, wit, wdefs = fee_witness(path, b, v)
            yield refute('fees_deducted_and_routed_exactly', [m] + cs + wdefs + [z3.Or(z3.Not(wit), paid(trs, X, D) != match_spec(sc, req, a, b, v, X, D, r1, r2))], cls=a['cls'], bidfee=b['hasfee'])
            av = attr_value(path, 'ask_fee')
            bv = attr_value(path, 'bid_fee')
            if av is not None and numstr_arg(av) is not None:
                yield refute('ask_fee_is_rate_times_gross_half_up', [m] + cs + [numstr_arg(av) != v['askfee']], cls=a['cls'])
            else:
                yield refute('ask_fee_is_rate_times_gross_half_up', [m])
    # pro-rata clause of Inv_bid re-established on every bid that stays on the book
    from .models import struct_eq
    for i, e in enumerate(path.world.maps['bid']):
        if e.fmt != 'BidOrderV3':
            continue
        b = bid_view(ti, e.val)
        if not b['hasfee']:
            continue
        if i < len(sc.world.maps['bid']) and z3.is_true(z3.simplify(struct_eq(sc.world.maps['bid'][i].val, e.val))):
            continue                      # untouched: the clause is part of the assumed Inv
        # witnesses: the path's own roundings of (a/q)*f (nearest unit by the model of rust_decimal); the remaining obligation is linear:
        # the fee held is that rounding, taken of exactly this bid's fee over its unspent quote
        alts = []
        for t in path.world.ties:
            fac = t[3] if len(t) > 3 else None
            if fac is not None:
                a_c, f_c, q_c = fac
                alts.append(z3.And(b['rem_f'] == t[2], f_c == b['fee'], q_c == b['quote'], a_c == b['rem_q']))
        direct = tol_nearest(b['fee'], b['rem_q'], b['quote'], b['rem_f'])
        if alts:
            good = z3.And(b['acc_f'] >= 0, b['acc_f'] <= b['fee'], z3.Or(*alts))
            yield refute('fee_held_is_pro_rata_of_unspent_quote', [e.present, z3.Not(good), z3.Not(direct)], kind=kind, witness=True)
        else:
            good = z3.And(b['acc_f'] >= 0, b['acc_f'] <= b['fee'], direct)
            yield refute('fee_held_is_pro_rata_of_unspent_quote', [e.present, z3.Not(good)], kind=kind, witness=False)
    # a bid that leaves the book has had its whole fee paid out or returned (C01's "zero once closed"), checked in the ledger step (C01)


# ---------------------------------------------------------------- C17 response attributes
ACTION = {'CancelAsk': 'cancel_ask', 'CancelBid': 'cancel_bid', 'ExpireAsk': 'expire_ask', 'ExpireBid': 'expire_bid', 'RejectAskNone': 'reject_ask', 'RejectAskSome': 'reject_ask',
          'RejectBidNone': 'reject_bid', 'RejectBidSome': 'reject_bid', 'ApproveAsk': 'approve_ask', 'CreateAsk': 'create_ask', 'CreateBid': 'create_bid',
          'ExecuteMatch': 'execute', 'ModifyContract': 'modify_contract'}


def c17(sc, req, path):
    if path.kind != 'ok':
        return
    ti, kind = sc.ti, req['kind']
    from .engine import Unsupported
    for a_ in path.attributes:
        k_, v_ = a_.fields
        if isinstance(k_, z3.ExprRef) and isinstance(v_, Opaque) and v_.tag == 'Fmt':
            for name_ in ('action', 'id', 'ask_id', 'bid_id', 'size', 'price', 'ask_fee', 'bid_fee', 'reverse_size', 'order_open'):
                if z3.eq(k_, lit(name_)):
                    raise Unsupported('attribute %s is built by a format! template the engine does not render' % name_)
    act = attr_values(path, 'action')
    if len(act) != 1:
        yield refute('action_attribute_once', [z3.BoolVal(True)])
    else:
        yield prove('action_names_request_kind', act[0] == lit(ACTION[kind]), kind=kind)
    trs = transfers(path)
    if kind in ST.ASK_KINDS + ST.BID_KINDS + ['ApproveAsk', 'CreateAsk', 'CreateBid']:
        idv = attr_value(path, 'id')
        yield (prove('id_attribute_names_order', idv == req['id']) if idv is not None else refute('id_attribute_names_order', [z3.BoolVal(True)]))
    if kind in ('ExpireAsk', 'ExpireBid', 'RejectAskNone', 'RejectAskSome', 'RejectBidNone', 'RejectBidSome', 'CancelBid'):
        ns = 'ask' if 'Ask' in kind else 'bid'
        rs, oo = attr_value(path, 'reverse_size'), attr_value(path, 'order_open')
        rsn = numstr_arg(rs) if rs is not None else None
        for i, e in enumerate(sc.world.maps[ns]):
            m = matched(e, req['id'])
            post = path.world.maps[ns][i]
            if ns == 'ask':
                a = ask_view(ti, e.val)
                returned = paid(trs, a['owner'], a['base'])
                if a['cls'] == 'Ready':
                    returned = z3.If(z3.And(a['owner'] == a['approver'], a['base'] == sc.cfgf('base_denom')), returned / 2, returned)
                delta = a['size'] - z3.If(post.present, ask_view(ti, post.val)['size'], 0)
            else:
                b = bid_view(ti, e.val)
                delta = b['rem_b'] - z3.If(post.present, bid_view(ti, post.val)['rem_b'], 0)
                returned = None
            if rsn is None:
                yield refute('reverse_size_is_size_returned', [m])
            else:
                yield refute('reverse_size_is_size_returned', [m, rsn != delta], order=ns)
            if oo is None:
                yield refute('order_open_flag_truthful', [m])
            else:
                yield refute('order_open_flag_truthful', [m, z3.Not(z3.If(post.present, oo == lit('true'), oo == lit('false')))], order=ns)
    if kind == 'ExecuteMatch':
        for i, j, ea, eb, a, b, m in match_views(sc, req, path):
            if a['cls'] == 'Pending':
                continue
            cs, v = match_defs(sc, req, a, b)
            ai, bi, sz, pr = attr_value(path, 'ask_id'), attr_value(path, 'bid_id'), attr_value(path, 'size'), attr_value(path, 'price')
            af, bf = attr_value(path, 'ask_fee'), attr_value(path, 'bid_fee')
            ok_ids = z3.And(ai == req['ask_id'], bi == req['bid_id']) if ai is not None and bi is not None else z3.BoolVal(False)
            yield refute('match_ids_reported', [m, z3.Not(ok_ids)])
            szn = numstr_arg(sz) if sz is not None else None
            yield refute('match_size_reported', [m, (szn != req['size']) if szn is not None else z3.BoolVal(True)])
            if pr is not None and z3.is_app(pr) and pr.decl().name() == 'decstr':
                yield refute('match_price_reported_numerically', [m, pr.arg(0) * req['pd'] != req['pn'] * pr.arg(1)])
            elif pr is not None and isinstance(pr, z3.ExprRef) and pr.sort() == StrS:
                src = pr.arg(0) if z3.is_app(pr) and pr.decl().name() == 'deccanon' else pr     # canonical rendering of a parsed text has that text's value
                yield refute('match_price_reported_numerically', [m, z3.Not(z3.And(f_dec_ok(src), f_dec_n(src) * req['pd'] == req['pn'] * f_dec_d(src)))])
            else:
                yield refute('match_price_reported_numerically', [m])
            afn = numstr_arg(af) if af is not None else None
            bfn = numstr_arg(bf) if bf is not None else None
            qd = b['quote_denom']
            # what was actually paid to the fee accounts (net of coincidences is not separable; compare with the spec amounts instead)
            if afn is None:
                yield refute('ask_fee_reported', [m])
            else:
                yield refute('ask_fee_reported', [m] + cs + [afn != v['askfee']])
            if bfn is None:
                yield refute('bid_fee_reported', [m])
            elif b['hasfee']:
                r1, r2, wit, wdefs = fee_witness(path, b, v)
                yield refute('bid_fee_reported', [m] + cs + wdefs + [z3.Not(z3.And(wit, bfn == b['rem_f'] - r1))])
            else:
                yield refute('bid_fee_reported', [m, bfn != 0])
            # ... and were paid: each fee account (when it is not also a trading party of this match) received exactly the reported fee(s)
            if afn is not None and bfn is not None:
                trs_ = transfers(path)
                parties = [a['owner'], b['owner']] + ([a['approver']] if a['cls'] == 'Ready' else [])
                for acct, own, oacct, other in ((v['askfee_acct'], afn, v['bidfee_acct'], bfn), (v['bidfee_acct'], bfn, v['askfee_acct'], afn)):
                    if acct is None:
                        continue
                    expect = own + (z3.If(oacct == acct, other, 0) if oacct is not None else 0)
                    apart = [acct != x for x in parties]
                    yield refute('reported_fees_were_paid_to_the_fee_accounts', [m] + apart + [paid(trs_, acct, qd) != expect], side='ask' if own is afn else 'bid')
    if kind in ('CreateAsk', 'CreateBid', 'ApproveAsk'):
        ns = 'bid' if kind == 'CreateBid' else 'ask'
        pr, sz = attr_value(path, 'price'), attr_value(path, 'size')
        szn = numstr_arg(sz) if sz is not None else None
        for e in path.world.maps[ns]:
            m = matched(e, req['id'])
            if ns == 'ask':
                a = ask_view(ti, e.val)
                price, size = a['price'], a['size']
            else:
                b = bid_view(ti, e.val)
                price, size = b['price'], b['base']
            yield refute('reported_price_and_size_are_recorded', [m, z3.Not(z3.And(pr == price if pr is not None else False, szn == size if szn is not None else False))], kind=kind)


PROPS = {'C01': c01, 'C02': c02, 'C03': c03, 'C04': c04, 'C05': c05, 'C06': c06, 'C08': c08, 'C09': c09, 'C10': c10, 'C17': c17}


# ---------------------------------------------------------------- C07 admission
def escrow_exact(sc, req, trs, denom, amount):
    """exactly `amount` of `denom` escrowed by the sender: attached funds of that one coin (ordinary denom, no message)
    or a single pull transfer from the sender with no attached funds (restricted marker)"""
    if len(sc.funds) == 1:
        f = sc.funds[0]
        funds_exact = z3.And(f.fields[0] == denom, uv(f.fields[1]) == amount)
    else:
        funds_exact = z3.BoolVal(False)
    if len(trs) == 1 and trs[0].wellformed and trs[0].kind == 'marker':
        t = trs[0]
        pull_exact = z3.And(t.frm == req['sender'], t.to == CONTRACT, t.admin == CONTRACT, t.denom == denom, t.amount == amount)
    else:
        pull_exact = z3.BoolVal(False)
    return z3.If(restricted(denom), z3.And(len(sc.funds) == 0, pull_exact), z3.And(funds_exact, len(trs) == 0))


def funds_shape_ok(sc, req, denom, amount):
    """the attached funds are what an admissible request carries (used for the converse direction)"""
    if len(sc.funds) == 0:
        return restricted(denom)
    if len(sc.funds) == 1:
        f = sc.funds[0]
        return z3.And(z3.Not(restricted(denom)), f.fields[0] == denom, uv(f.fields[1]) == amount)
    return z3.BoolVal(False)


def has_required_attributes(sc, req, required):
    if not required:
        return z3.BoolVal(True)
    names = sc.world.attrs or []
    return z3.And(f_attr_ok(req['sender']), *[z3.Or(*[r == n for n in names]) if names else z3.BoolVal(False) for r in required])


def c07(sc, req, path):
    ti, kind = sc.ti, req['kind']
    if kind not in ('CreateAsk', 'CreateBid'):
        return
    ns = 'ask' if kind == 'CreateAsk' else 'bid'
    rid = req['id']
    base_denom = sc.cfgf('base_denom')
    inc = sc.sym['cfg.increment']
    pn, pd, size = req['pn'], req['pd'], req['size']
    canonical = z3.And(f_uuid_ok(rid), f_uuid_hyph(rid) == rid)
    not_on_book = z3.And(*[z3.Not(matched(e, rid)) for e in sc.world.maps[ns]])
    price_ok = z3.And(f_dec_ok(req['price']), pn > 0, (pn * sc.p10) % pd == 0)
    defs, _, lot_rem = euclid_vars(sc.eng, size, inc)
    size_ok = z3.And(size >= 1, lot_rem == 0)
    quote_ok = z3.And(in_list(req['quote'], sc.cfgf('supported_quote_denoms')), req['quote'] != EMPTY, req['base'] != EMPTY)     # a denomination is a non-empty string
    if kind == 'CreateAsk':
        base_ok = z3.Or(req['base'] == base_denom, in_list(req['base'], sc.cfgf('convertible_base_denoms')))
        attrs_ok = has_required_attributes(sc, req, sc.cfgf('ask_required_attributes'))
        A = z3.And(canonical, not_on_book, base_ok, quote_ok, price_ok, size_ok, attrs_ok)
        escrow_denom, escrow_amount = req['base'], size
    else:
        base_ok = req['base'] == base_denom
        attrs_ok = has_required_attributes(sc, req, sc.cfgf('bid_required_attributes'))
        total_ok = z3.And((pn * size) % pd == 0, req['quote_size'] * pd == pn * size)
        bfi = sc.cfgf('bid_fee_info')
        if bfi.variant == 'Some':
            rate = ti.get(bfi.fields[0], 'rate')
            rn, rd = f_dec_n(rate), f_dec_d(rate)
            fee_calc = (2 * rn * req['quote_size'] + rd) / (2 * rd)
        else:
            fee_calc = z3.IntVal(0)
        if req['spec']['reqfee']:
            fee_ok = z3.And(req['fee_amount'] == fee_calc, req['fee_denom'] == req['quote'])
            fee_amt = req['fee_amount']
        else:
            fee_ok = fee_calc == 0
            fee_amt = z3.IntVal(0)
        A = z3.And(canonical, not_on_book, base_ok, quote_ok, price_ok, size_ok, total_ok, fee_ok, attrs_ok, req['quote_size'] >= 1)
        escrow_denom, escrow_amount = req['quote'], req['quote_size'] + fee_amt
    if path.kind == 'ok':
        trs = transfers(path)
        yield refute('admitted_only_if_well_formed', defs + [z3.Not(A)], kind=kind)
        yield refute('admitted_only_if_exactly_funded', [z3.Not(escrow_exact(sc, req, trs, escrow_denom, escrow_amount))], kind=kind)
        # recorded order reproduces the request, sender as owner, nothing filled; only that key written
        writes = path.writes()
        if len(writes) != 1 or writes[0][0] != 'save' or writes[0][1] != ns:
            yield refute('recorded_order_reproduces_request', [z3.BoolVal(True)], kind=kind)
        else:
            yield refute('recorded_order_reproduces_request', [writes[0][2] != rid], kind=kind)
            alts = []
            for e in path.world.maps[ns]:
                if ns == 'ask':
                    a = ask_view(ti, e.val)
                    if a['cls'] not in ('Basic', 'Pending'):
                        continue
                    cls_ok = (req['base'] == base_denom) if a['cls'] == 'Basic' else (req['base'] != base_denom)
                    same = z3.And(e.present, e.key == rid, a['id'] == rid, a['owner'] == req['sender'], a['base'] == req['base'], a['quote'] == req['quote'], a['price'] == req['price'], a['size'] == size, cls_ok)
                else:
                    b = bid_view(ti, e.val)
                    same = z3.And(e.present, e.key == rid, b['id'] == rid, b['owner'] == req['sender'], b['base_denom'] == req['base'], b['base'] == size, b['quote_denom'] == req['quote'],
                                  b['quote'] == req['quote_size'], b['price'] == req['price'], b['acc_b'] == 0, b['acc_q'] == 0, b['acc_f'] == 0)
                    if req['spec']['reqfee']:
                        if not b['hasfee']:
                            continue
                        same = z3.And(same, b['fee'] == req['fee_amount'], b['fee_denom'] == req['fee_denom'])
                    elif b['hasfee']:
                        continue
                alts.append(same)
            yield refute('recorded_order_reproduces_request', [z3.Not(z3.Or(*alts) if alts else z3.BoolVal(False))], kind=kind)
        # orders already on the book (incl. one under the same id on the other side) are untouched
        from .models import struct_eq
        for side in ('ask', 'bid'):
            for i, e in enumerate(sc.world.maps[side]):
                post = path.world.maps[side][i]
                yield refute('existing_order_untouched', [e.present, z3.Not(z3.And(post.present, struct_eq(e.val, post.val)))], kind=kind)
    elif path.kind in ('err', 'panic'):
        legal = defs + [A, funds_shape_ok(sc, req, escrow_denom, escrow_amount)]
        yield refute('admissible_request_is_accepted', legal, kind=kind, outcome=path.kind, detail=path.detail)


# ---------------------------------------------------------------- C11 order integrity / frame
def inv_ask(sc, a):
    base_denom = sc.cfgf('base_denom')
    pn, pd = f_dec_n(a['price']), f_dec_d(a['price'])
    c = [a['size'] >= 1, f_dec_ok(a['price']), pn > 0, (pn * sc.p10) % pd == 0, in_list(a['quote'], sc.cfgf('supported_quote_denoms'))]
    if a['cls'] == 'Basic':
        c.append(a['base'] == base_denom)
    else:
        c.append(a['base'] != base_denom)
        c.append(in_list(a['base'], sc.cfgf('convertible_base_denoms')))
    return z3.And(*c)


def inv_bid(sc, b):
    pn, pd = f_dec_n(b['price']), f_dec_d(b['price'])
    c = [b['rem_b'] >= 1, b['acc_b'] >= 0, b['acc_q'] >= 0, f_dec_ok(b['price']), pn > 0, (pn * sc.p10) % pd == 0, b['base_denom'] == sc.cfgf('base_denom'),
         in_list(b['quote_denom'], sc.cfgf('supported_quote_denoms')), b['quote'] * pd == pn * b['base'], b['rem_q'] * pd == pn * b['rem_b']]
    return z3.And(*c)


def c11(sc, req, path):
    if path.kind != 'ok':
        return
    ti, kind = sc.ti, req['kind']
    named = {'ask': [], 'bid': []}
    if kind in ST.ASK_KINDS or kind in ('ApproveAsk', 'CreateAsk'):
        named['ask'].append(req['id'])
    elif kind in ST.BID_KINDS or kind == 'CreateBid':
        named['bid'].append(req['id'])
    elif kind == 'ExecuteMatch':
        named['ask'].append(req['ask_id'])
        named['bid'].append(req['bid_id'])
    for w in path.writes():
        op, ns, key, _ = w
        if ns in ('ask', 'bid'):
            yield refute('writes_only_named_keys', [z3.Not(z3.Or(*[key == k for k in named[ns]]) if named[ns] else z3.BoolVal(False))], kind=kind, ns=ns)
        elif ns == 'contract_info':
            if kind != 'ModifyContract':
                yield refute('configuration_untouched', [z3.BoolVal(True)], kind=kind)
        else:
            yield refute('version_record_untouched', [z3.BoolVal(True)], kind=kind)
    for ns in ('ask', 'bid'):
        for i, e in enumerate(sc.world.maps[ns]):
            post = path.world.maps[ns][i]
            is_named = z3.Or(*[e.key == k for k in named[ns]]) if named[ns] else z3.BoolVal(False)
            if ns == 'ask':
                a, pa = ask_view(ti, e.val), ask_view(ti, post.val)
                untouched = z3.And(post.present == e.present, pa['size'] == a['size'], pa['owner'] == a['owner'], pa['price'] == a['price'], pa['base'] == a['base'],
                                   pa['quote'] == a['quote'], pa['id'] == a['id'], z3.BoolVal(pa['cls'] == a['cls']))
                if a['cls'] == 'Ready' and pa['cls'] == 'Ready':
                    untouched = z3.And(untouched, pa['approver'] == a['approver'], pa['cb_amount'] == a['cb_amount'], pa['cb_denom'] == a['cb_denom'])
                yield refute('other_orders_untouched', [e.present, z3.Not(is_named), z3.Not(untouched)], kind=kind, ns=ns)
                cls_ok = pa['cls'] == a['cls'] or (a['cls'] == 'Pending' and pa['cls'] == 'Ready')
                immut = z3.And(pa['owner'] == a['owner'], pa['price'] == a['price'], pa['base'] == a['base'], pa['quote'] == a['quote'], pa['id'] == a['id'],
                               pa['size'] <= a['size'], z3.BoolVal(cls_ok))
                if a['cls'] == 'Ready' and pa['cls'] == 'Ready':
                    immut = z3.And(immut, pa['approver'] == a['approver'], pa['cb_denom'] == a['cb_denom'], pa['cb_amount'] <= a['cb_amount'])
                yield refute('immutable_terms_and_shrinking_remainders', [e.present, post.present, z3.Not(immut)], kind=kind, ns=ns)
                yield refute('open_order_internally_consistent', [post.present, z3.Not(inv_ask(sc, pa))], kind=kind, ns=ns)
            else:
                b, pb = bid_view(ti, e.val), bid_view(ti, post.val)
                same_terms = z3.And(pb['owner'] == b['owner'], pb['price'] == b['price'], pb['base_denom'] == b['base_denom'], pb['quote_denom'] == b['quote_denom'], pb['id'] == b['id'],
                                    pb['base'] == b['base'], pb['quote'] == b['quote'], pb['fee'] == b['fee'], z3.BoolVal(pb['hasfee'] == b['hasfee']))
                if b['hasfee'] and pb['hasfee']:
                    same_terms = z3.And(same_terms, pb['fee_denom'] == b['fee_denom'])
                untouched = z3.And(post.present == e.present, same_terms, pb['acc_b'] == b['acc_b'], pb['acc_q'] == b['acc_q'], pb['acc_f'] == b['acc_f'])
                yield refute('other_orders_untouched', [e.present, z3.Not(is_named), z3.Not(untouched)], kind=kind, ns=ns)
                immut = z3.And(same_terms, pb['acc_b'] >= b['acc_b'], pb['acc_q'] >= b['acc_q'], pb['acc_f'] >= b['acc_f'])
                yield refute('immutable_terms_and_shrinking_remainders', [e.present, post.present, z3.Not(immut)], kind=kind, ns=ns)
                yield refute('open_order_internally_consistent', [post.present, z3.Not(inv_bid(sc, pb))], kind=kind, ns=ns)
    # newly recorded orders are consistent too
    for ns in ('ask', 'bid'):
        for e in path.world.maps[ns][len(sc.world.maps[ns]):]:
            v = ask_view(ti, e.val) if ns == 'ask' else bid_view(ti, e.val)
            yield refute('open_order_internally_consistent', [e.present, z3.Not(inv_ask(sc, v) if ns == 'ask' else inv_bid(sc, v))], kind=kind, ns=ns)
    if kind != 'ModifyContract':
        pre, post = sc.world.items.get('contract_info'), path.world.items.get('contract_info')
        from .models import struct_eq
        yield refute('configuration_untouched', [z3.Not(struct_eq(pre, post))], kind=kind)
    from .models import struct_eq as _seq
    yield refute('version_record_untouched', [z3.Not(_seq(sc.world.items.get('version_info'), path.world.items.get('version_info')))], kind=kind)


# ---------------------------------------------------------------- C12 configuration changes
def fee_view(ti, opt):
    if opt.variant == 'None':
        return None
    fi = opt.fields[0]
    return dict(account=uv(ti.get(fi, 'account')), rate=ti.get(fi, 'rate'))


def same_rate(old, new):
    if old is None and new is None:
        return z3.BoolVal(True)
    if old is None or new is None:
        return z3.BoolVal(False)
    return z3.And(f_dec_ok(new['rate']), f_dec_n(old['rate']) * f_dec_d(new['rate']) == f_dec_n(new['rate']) * f_dec_d(old['rate']))


def list_eq(x, y):
    if len(x) != len(y):
        return z3.BoolVal(False)
    return z3.And(*[(uv(a) if isinstance(a, Adt) else a) == (uv(b) if isinstance(b, Adt) else b) for a, b in zip(x, y)]) if x else z3.BoolVal(True)


def c12(sc, req, path):
    if req['kind'] != 'ModifyContract' or path.kind != 'ok':
        return
    ti = sc.ti
    old, new = sc.world.items['contract_info'], path.world.items['contract_info']
    g = lambda c, n: ti.get(c, n)
    w = sc.world
    contains_ask = z3.Or(w.rest_nonempty['ask'], *[e.present for e in w.maps['ask']])
    contains_bid = z3.Or(w.rest_nonempty['bid'], *[e.present for e in w.maps['bid']])
    yield prove('config_change_executor_only', in_list(req['sender'], g(old, 'executors')))
    for side, contains in (('ask', contains_ask), ('bid', contains_bid)):
        fo, fn = fee_view(ti, g(old, side + '_fee_info')), fee_view(ti, g(new, side + '_fee_info'))
        yield refute('fee_rate_frozen_while_side_open', [contains, z3.Not(same_rate(fo, fn))], side=side)
        yield refute('required_attributes_frozen_while_side_open', [contains, z3.Not(list_eq(g(old, side + '_required_attributes'), g(new, side + '_required_attributes')))], side=side)
    # no current approver dropped while any order is open
    olda, newa = g(old, 'approvers'), g(new, 'approvers')
    kept = z3.And(*[in_list(uv(a), newa) for a in olda]) if olda else z3.BoolVal(True)
    yield refute('approvers_not_dropped_while_orders_open', [z3.Or(contains_ask, contains_bid), z3.Not(kept)])
    # omitted fields keep their values, supplied ones are installed exactly
    for name in ('approvers', 'executors'):
        sup = req[name]
        if sup is None:
            yield refute('omitted_field_unchanged', [z3.Not(list_eq(g(old, name), g(new, name)))], field=name)
        else:
            yield refute('supplied_field_installed', [z3.Not(list_eq(sup, g(new, name)))], field=name)
            if len(sup) == 0:
                yield refute('role_lists_not_emptied', [z3.BoolVal(True)], field=name)
    for name in ('ask_required_attributes', 'bid_required_attributes'):
        sup = req[name]
        if sup is None:
            yield refute('omitted_field_unchanged', [z3.Not(list_eq(g(old, name), g(new, name)))], field=name)
        else:
            yield refute('supplied_field_installed', [z3.Not(list_eq(sup, g(new, name)))], field=name)
    for side in ('ask', 'bid'):
        rate, acct = req[side + '_fee_rate'], req[side + '_fee_account']
        fo, fn = fee_view(ti, g(old, side + '_fee_info')), fee_view(ti, g(new, side + '_fee_info'))
        if rate is None and acct is None:
            if (fo is None) != (fn is None):
                yield refute('omitted_field_unchanged', [z3.BoolVal(True)], field=side + '_fee')
            elif fo is not None:
                yield refute('omitted_field_unchanged', [z3.Not(z3.And(fo['account'] == fn['account'], fo['rate'] == fn['rate']))], field=side + '_fee')
        elif rate is not None and acct is not None:
            cleared = z3.And(rate == EMPTY, acct == EMPTY)
            if fn is None:
                yield refute('supplied_field_installed', [z3.Not(cleared)], field=side + '_fee')
            else:
                yield refute('supplied_field_installed', [z3.Not(z3.And(z3.Not(cleared), fn['account'] == acct, fn['rate'] == rate, f_dec_ok(rate), f_addr_ok(acct)))], field=side + '_fee')
        else:
            yield refute('fee_pair_supplied_together', [z3.BoolVal(True)], field=side + '_fee')
    for name in ('name', 'bind_name', 'base_denom'):
        yield refute('market_parameters_immutable', [g(old, name) != g(new, name)], field=name)
    for name in ('convertible_base_denoms', 'supported_quote_denoms'):
        yield refute('market_parameters_immutable', [z3.Not(list_eq(g(old, name), g(new, name)))], field=name)
    for name in ('price_precision', 'size_increment'):
        yield refute('market_parameters_immutable', [uv(g(old, name)) != uv(g(new, name))], field=name)
    for wr in path.writes():
        if wr[1] != 'contract_info':
            yield refute('config_change_writes_only_configuration', [z3.BoolVal(True)], ns=wr[1])


PROPS.update({'C07': c07, 'C11': c11, 'C12': c12})


# ---------------------------------------------------------------- C13 instantiation
def pow10_term(P, lo=0, hi=40):
    t = z3.IntVal(10 ** hi)
    for k in range(hi - 1, lo - 1, -1):
        t = z3.If(P == k, z3.IntVal(10 ** k), t)
    return t


def fee_pair_coherent(rate, acct):
    if rate is None and acct is None:
        return z3.BoolVal(True), 'none'
    if rate is None or acct is None:
        return z3.BoolVal(False), 'half'
    return z3.Or(z3.And(rate == EMPTY, acct == EMPTY), z3.And(f_dec_ok(rate), f_addr_ok(acct))), 'pair'


def c13(sc, req, path):
    if req['kind'] != 'Instantiate':
        return
    ti = sc.ti
    P, I = req['P'], req['I']
    p10 = pow10_term(P, 0, 18)
    defs, _, rem = euclid_vars(sc.eng, I, p10)
    # the engine's own term for 10^P may differ syntactically: use a fresh decomposition tied to the oracle's table
    q_, r_ = fresh_int('q'), fresh_int('rem')
    defs = [floor_def(I, p10, q_, r_)]
    afc, _ = fee_pair_coherent(req['ask_fee_rate'], req['ask_fee_account'])
    bfc, _ = fee_pair_coherent(req['bid_fee_rate'], req['bid_fee_account'])
    coherent = z3.And(req['name'] != EMPTY, req['base_denom'] != EMPTY, len(req['quotes']) > 0, len(req['executors']) > 0, P <= 18, I >= 1, r_ == 0, afc, bfc,
                      *[f_addr_ok(a) for a in req['approvers'] + req['executors']])
    if path.kind == 'ok':
        yield refute('instantiate_only_coherent', defs + [z3.Not(coherent)])
        cfg = path.world.items.get('contract_info')
        ver = path.world.items.get('version_info')
        if cfg is None or ver is None:
            yield refute('stored_configuration_equals_request', [z3.BoolVal(True)])
            return
        g = lambda n: ti.get(cfg, n)
        same = z3.And(g('name') == req['name'], g('base_denom') == req['base_denom'], list_eq(g('convertible_base_denoms'), req['conv']),
                      list_eq(g('supported_quote_denoms'), req['quotes']), list_eq(g('approvers'), req['approvers']), list_eq(g('executors'), req['executors']),
                      list_eq(g('ask_required_attributes'), req['ask_attrs']), list_eq(g('bid_required_attributes'), req['bid_attrs']),
                      uv(g('price_precision')) == P, uv(g('size_increment')) == I)
        yield refute('stored_configuration_equals_request', [z3.Not(same)])
        for side in ('ask', 'bid'):
            rate, acct = req[side + '_fee_rate'], req[side + '_fee_account']
            fv = fee_view(ti, g(side + '_fee_info'))
            if rate is None or acct is None:
                yield refute('stored_fee_equals_request', [z3.BoolVal(fv is not None)], side=side)
            elif fv is None:
                yield refute('stored_fee_equals_request', [z3.Not(z3.And(rate == EMPTY, acct == EMPTY))], side=side)
            else:
                yield refute('stored_fee_equals_request', [z3.Not(z3.And(fv['rate'] == rate, fv['account'] == acct, z3.Not(z3.And(rate == EMPTY, acct == EMPTY))))], side=side)
        yield refute('version_record_is_package_version', [z3.Not(z3.And(ti.get(ver, 'version') == lit(req['pkg_version']), ti.get(ver, 'definition') == lit(req['pkg_name'])))])
        act = attr_values(path, 'action')
        yield refute('action_names_request_kind', [z3.Not(act[0] == lit('init'))] if len(act) == 1 else [z3.BoolVal(True)])
    elif path.kind in ('err', 'panic'):
        yield refute('coherent_configuration_is_accepted', defs + [coherent], outcome=path.kind, detail=path.detail)


def integrality_corollary():
    """price with at most P decimals, size a multiple of an increment that is a multiple of 10^P  =>  price*size is an integer.
    Posed per precision with constant powers of ten (u = mantissa * lots is an arbitrary integer)."""
    obls = []
    for P in range(0, 19):
        for e in range(0, P + 1):
            u = z3.Int('u')
            obls.append(Obl('integrality_of_admissible_price_times_size', [(u * 10 ** P) % (10 ** e) != 0], P=P, scale=e))
    return obls


# ---------------------------------------------------------------- C14 / C15 migration
MIN_VERSION = (0, 16, 2)           # the supported minimum source version at the pinned commit
V2_WINDOW_END = (0, 19, 1)         # bids were stored with an event log before this version


def ver_ge(v, t):
    maj, mi, pa = f_sv_maj(v), f_sv_min(v), f_sv_pat(v)
    return z3.Or(maj > t[0], z3.And(maj == t[0], mi > t[1]), z3.And(maj == t[0], mi == t[1], pa >= t[2]))


def supported_version(v):
    from .engine import f_sv_ok, f_sv_pre
    return z3.And(f_sv_ok(v), z3.Not(f_sv_pre(v)), ver_ge(v, MIN_VERSION))


from .engine import f_sv_ok, f_sv_maj, f_sv_min, f_sv_pat, f_sv_pre


def v2_sums(rec):
    sb = sq = sf = z3.IntVal(0)
    for ev in rec['events']:
        if ev['variant'] in ('Fill', 'Reject'):
            sb = sb + ev['base']
        sq = sq + ev['quote']
        if ev['hasfee']:
            sf = sf + ev['fee']
    return sb, sq, sf


def migrate_cfg_expected(sc, req, old, new):
    ti = sc.ti
    g = lambda c, n: ti.get(c, n)
    conds = []
    for name in ('name', 'bind_name', 'base_denom'):
        conds.append(g(old, name) == g(new, name))
    for name in ('convertible_base_denoms', 'supported_quote_denoms', 'executors'):
        conds.append(list_eq(g(old, name), g(new, name)))
    for name in ('price_precision', 'size_increment'):
        conds.append(uv(g(old, name)) == uv(g(new, name)))
    conds.append(list_eq(req['approvers'], g(new, 'approvers')) if req['approvers'] is not None else list_eq(g(old, 'approvers'), g(new, 'approvers')))
    for name in ('ask_required_attributes', 'bid_required_attributes'):
        conds.append(list_eq(req[name], g(new, name)) if req[name] is not None else list_eq(g(old, name), g(new, name)))
    for side in ('ask', 'bid'):
        rate, acct = req[side + '_fee_rate'], req[side + '_fee_account']
        fo, fn = fee_view(ti, g(old, side + '_fee_info')), fee_view(ti, g(new, side + '_fee_info'))
        if rate is not None and acct is not None:
            cleared = z3.And(rate == EMPTY, acct == EMPTY)
            conds.append(cleared if fn is None else z3.And(z3.Not(cleared), fn['account'] == acct, fn['rate'] == rate))
        else:
            if (fo is None) != (fn is None):
                conds.append(z3.BoolVal(False))
            elif fo is not None:
                conds.append(z3.And(fo['account'] == fn['account'], fo['rate'] == fn['rate']))
    return z3.And(*conds)


def migrate_msg_valid(req):
    conds = []
    for side in ('ask', 'bid'):
        c, _ = fee_pair_coherent(req[side + '_fee_rate'], req[side + '_fee_account'])
        conds.append(c)
    if req['approvers'] is not None:
        conds += [f_addr_ok(a) for a in req['approvers']]
    return z3.And(*conds)


def c14(sc, req, path):
    if req['kind'] != 'Migrate':
        return
    ti = sc.ti
    v = req['version']
    from .models import struct_eq
    if path.kind == 'ok':
        yield refute('migration_version_gated', [z3.Not(supported_version(v))])
        for w in path.writes():
            if w[1] == 'ask':
                yield refute('migration_leaves_asks_untouched', [z3.BoolVal(True)])
        for i, e in enumerate(sc.world.maps['ask']):
            post = path.world.maps['ask'][i]
            yield refute('migration_leaves_asks_untouched', [z3.Not(z3.And(post.present == e.present, struct_eq(e.val, post.val)))])
        if len(path.world.maps['ask']) != len(sc.world.maps['ask']):
            yield refute('migration_leaves_asks_untouched', [z3.BoolVal(True)])
        old, new = sc.world.items['contract_info'], path.world.items['contract_info']
        yield refute('migration_applies_exactly_the_overrides', [z3.Not(migrate_cfg_expected(sc, req, old, new))])
        ver = path.world.items['version_info']
        yield refute('migration_stamps_package_version', [z3.Not(z3.And(ti.get(ver, 'version') == lit(req['pkg_version']), ti.get(ver, 'definition') == lit(req['pkg_name'])))])
        # current-format bids untouched, nothing lost or invented
        if len(path.world.maps['bid']) != len(sc.world.maps['bid']):
            yield refute('migration_keeps_bid_key_set', [z3.BoolVal(True)])
        for i, e in enumerate(sc.world.maps['bid']):
            post = path.world.maps['bid'][i]
            if e.fmt == 'BidOrderV3':
                yield refute('migration_leaves_current_bids_untouched', [z3.Not(z3.And(post.present == e.present, struct_eq(e.val, post.val), post.fmt == 'BidOrderV3'))])
    elif path.kind in ('err', 'panic'):
        yield refute('supported_migration_is_carried_out', [supported_version(v), migrate_msg_valid(req)], outcome=path.kind, detail=path.detail)


def c14_idempotence(sc, req, path1, path2):
    """second run of the same migration from the first one's post-state"""
    from .models import struct_eq
    if path2.kind != 'ok':
        yield refute('second_migration_accepted', [z3.BoolVal(True)], outcome=path2.kind, detail=path2.detail)
        return
    w1, w2 = path1.world, path2.world
    conds = [struct_eq(w1.items['contract_info'], w2.items['contract_info']), struct_eq(w1.items['version_info'], w2.items['version_info'])]
    for ns in ('ask', 'bid'):
        if len(w1.maps[ns]) != len(w2.maps[ns]):
            conds.append(z3.BoolVal(False))
            continue
        for a, b in zip(w1.maps[ns], w2.maps[ns]):
            conds.append(z3.And(a.present == b.present, struct_eq(a.val, b.val), z3.BoolVal(a.fmt == b.fmt)))
    yield refute('second_migration_changes_nothing', [z3.Not(z3.And(*conds))])


def c15(sc, req, path):
    if req['kind'] != 'Migrate' or path.kind != 'ok':
        return
    ti = sc.ti
    v = req['version']
    from .models import struct_eq
    in_window = z3.And(supported_version(v), z3.Not(ver_ge(v, V2_WINDOW_END)))
    bid_writes = [w for w in path.writes() if w[1] == 'bid']
    if bid_writes:
        yield refute('no_rewrite_outside_conversion_window', [z3.Not(in_window)])
    if len(path.world.maps['bid']) != len(sc.world.maps['bid']):
        yield refute('no_bid_lost_or_invented', [z3.BoolVal(True)])
        return
    for i, e in enumerate(sc.world.maps['bid']):
        post = path.world.maps['bid'][i]
        rec = sc.bids[i]
        yield refute('no_bid_lost_or_invented', [z3.Not(z3.And(post.present, post.key == e.key))])
        if e.fmt == 'BidOrderV3':
            yield refute('current_format_bids_untouched', [z3.Not(z3.And(struct_eq(e.val, post.val), z3.BoolVal(post.fmt == 'BidOrderV3')))])
            continue
        # legacy bid
        if post.fmt == 'BidOrderV2':
            yield refute('legacy_bids_converted_inside_window', [in_window])
            yield refute('legacy_bid_kept_verbatim_outside_window', [z3.Not(struct_eq(e.val, post.val))])
            continue
        yield refute('no_rewrite_outside_conversion_window', [z3.Not(in_window)])
        old = e.val
        nb = bid_view(ti, post.val)
        sb, sq, sf = v2_sums(rec)
        g = lambda n: ti.get(old, n)
        ob, oq, of = g('base'), g('quote'), g('fee')
        same = z3.And(nb['acc_b'] == sb, nb['acc_q'] == sq, nb['acc_f'] == sf, nb['base'] == uv(ob.fields[1]), nb['base_denom'] == ob.fields[0], nb['quote'] == uv(oq.fields[1]),
                      nb['quote_denom'] == oq.fields[0], nb['id'] == g('id'), nb['owner'] == uv(g('owner')), nb['price'] == g('price'), z3.BoolVal(nb['hasfee'] == (of.variant == 'Some')))
        if of.variant == 'Some' and nb['hasfee']:
            same = z3.And(same, nb['fee'] == uv(of.fields[0].fields[1]), nb['fee_denom'] == of.fields[0].fields[0])
        yield refute('conversion_preserves_remaining_amounts_and_fields', [z3.Not(same)], events=len(rec['events']))


# ---------------------------------------------------------------- C16 queries
def c16(sc, req, path):
    if req['kind'] != 'Query':
        return
    ti = sc.ti
    from .models import struct_eq
    q = req['q']
    for w in path.writes():
        yield refute('queries_never_write', [z3.BoolVal(True)], q=q)
    # storage identical afterwards
    for ns in ('ask', 'bid'):
        for a, b in zip(sc.world.maps[ns], path.world.maps[ns]):
            yield refute('queries_never_write', [z3.Not(z3.And(a.present == b.present, struct_eq(a.val, b.val)))], q=q)
    for k in ('contract_info', 'version_info'):
        yield refute('queries_never_write', [z3.Not(struct_eq(sc.world.items[k], path.world.items[k]))], q=q)

    def result_value():
        r = path.resp
        if isinstance(r, Adt) and r.ty == 'Binary' and isinstance(r.fields[0], Opaque) and r.fields[0].tag == 'Json':
            return r.fields[0].a[0]
        return None
    if q in ('GetAsk', 'GetBid'):
        ns = 'ask' if q == 'GetAsk' else 'bid'
        rid = req['id']
        on_book = z3.Or(*[matched(e, rid) for e in sc.world.maps[ns]])
        if path.kind == 'ok':
            val = result_value()
            if val is None:
                yield refute('order_query_returns_the_stored_order', [z3.BoolVal(True)], q=q)
            else:
                alts = [z3.And(matched(e, rid), struct_eq(e.val, val)) if e.val.ty == val.ty else z3.BoolVal(False) for e in sc.world.maps[ns]]
                yield refute('order_query_returns_the_stored_order', [z3.Not(z3.Or(*alts))], q=q)
                # an order that has been completely filled, cancelled, expired or rejected is not on the book: nothing with zero remaining is reported
                if val.ty == 'AskOrderV1':
                    yield refute('order_query_never_reports_a_closed_order', [ask_view(ti, val)['size'] <= 0], q=q)
                elif val.ty == 'BidOrderV3':
                    yield refute('order_query_never_reports_a_closed_order', [bid_view(ti, val)['rem_b'] <= 0], q=q)
        else:
            # an id on the (named) book that parses as a UUID is answered
            yield refute('order_query_answers_for_orders_on_the_book', [on_book, f_uuid_ok(rid)], q=q, outcome=path.kind)
    else:
        key = 'contract_info' if q == 'GetContractInfo' else 'version_info'
        if path.kind == 'ok':
            val = result_value()
            yield refute('info_query_returns_the_stored_record', [z3.Not(struct_eq(sc.world.items[key], val))] if val is not None and val.ty == sc.world.items[key].ty else [z3.BoolVal(True)], q=q)
        else:
            yield refute('info_query_always_answers', [z3.BoolVal(True)], q=q, outcome=path.kind)


from .engine import Opaque
PROPS.update({'C13': c13, 'C14': c14, 'C15': c15, 'C16': c16})


# ---------------------------------------------------------------- Inv preservation (the induction step the history properties rest on)
def inv_step(sc, req, path):
    """every order on the book after an accepted request satisfies Inv again (DESIGN.md 5.1): the clauses C01 / C06 rely on"""
    if path.kind != 'ok':
        return
    ti, kind = sc.ti, req['kind']
    base_denom = sc.cfgf('base_denom')
    from .models import struct_eq
    for ns in ('ask', 'bid'):
        for i, e in enumerate(path.world.maps[ns]):
            if i < len(sc.world.maps[ns]) and z3.is_true(z3.simplify(struct_eq(sc.world.maps[ns][i].val, e.val))):
                continue            # untouched value: Inv is the assumption
            if ns == 'ask':
                a = ask_view(ti, e.val)
                good = inv_ask(sc, a)
                if a['cls'] == 'Ready':
                    good = z3.And(good, a['cb_amount'] == a['size'], a['cb_denom'] == base_denom)
                yield refute('inv_ask_reestablished', [e.present, z3.Not(good)], kind=kind, cls=a['cls'])
            elif e.fmt == 'BidOrderV3':
                b = bid_view(ti, e.val)
                good = z3.And(inv_bid(sc, b), b['acc_q'] <= b['quote'], b['acc_b'] < b['base'])
                yield refute('inv_bid_reestablished', [e.present, z3.Not(good)], kind=kind, fee=b['hasfee'])
    for ob in c09(sc, req, path):
        if ob.name == 'fee_held_is_pro_rata_of_unspent_quote':
            yield Obl('inv_bid_fee_clause_reestablished', ob.neg, **ob.info)


def c01_full(sc, req, path):
    yield from c01(sc, req, path)
    yield from inv_step(sc, req, path)


def c06_full(sc, req, path):
    yield from c06(sc, req, path)
    yield from inv_step(sc, req, path)


PROPS.update({'C01': c01_full, 'C06': c06_full})


# ---------------------------------------------------------------- C01 along histories from the empty book (no Inv assumed)
def c01_history(sc, trail):
    """holdings after the whole accepted history == what the orders on the final book are owed, per denomination"""
    ti = sc.ti
    D = fresh_str('D')
    net = z3.IntVal(0)
    for req, funds, p in trail:
        trs = transfers(p)
        fin = z3.IntVal(0)
        for f in funds:
            fin = fin + z3.If(f.fields[0] == D, uv(f.fields[1]), 0)
        for t in trs:
            if t.wellformed and t.kind == 'marker':
                fin = fin + z3.If(z3.And(t.to == CONTRACT, t.denom == D), t.amount, 0)
        net = net + fin - funds_out(trs, D)
    final = trail[-1][2].world
    yield refute('holdings_equal_owed_after_history', [net != owed(ti, final, D)], steps=len(trail))
    yield refute('holdings_never_negative', [net < 0], steps=len(trail))


def c05_history(sc, trail):
    """every accepted privileged request of an accepted history was sent by a holder of the role, read from the configuration and book
    stored just before it (reachable states only: no invariant is assumed, auxiliary state the code keeps is whatever it really wrote)"""
    ti = sc.ti
    for i in range(1, len(trail)):
        req, _, p = trail[i]
        pre = trail[i - 1][2].world
        kind, sender = req['kind'], req['sender']
        cfg = pre.items['contract_info']
        execs, apprs = ti.get(cfg, 'executors'), ti.get(cfg, 'approvers')
        if kind == 'CancelAsk':
            goal = z3.Or(*[z3.And(matched(e, req['id']), sender == ask_view(ti, e.val)['owner']) for e in pre.maps['ask']])
            yield prove('auth_cancel_ask_owner_only_in_history', goal, step=i)
        elif kind == 'CancelBid':
            goal = z3.Or(*[z3.And(matched(e, req['id']), sender == bid_view(ti, e.val)['owner']) for e in pre.maps['bid']])
            yield prove('auth_cancel_bid_owner_only_in_history', goal, step=i)
        elif kind == 'ApproveAsk':
            yield prove('auth_approve_approver_only_in_history', in_list(sender, apprs), step=i)
        elif kind in ('CreateAsk', 'CreateBid'):
            continue
        else:
            yield prove('auth_executor_only_in_history', in_list(sender, execs), step=i, request=kind)


HISTORY_OBLIGATIONS = {'C01': c01_history, 'C05': c05_history}
STEP_PROPS_ON_REACHED_STATES = {'C06': c06}        # per-operation part only (the Inv-preservation half of C06 is about arbitrary Inv states)


def with_inv_establishment(fn):
    """a per-operation property decided over Inv books also checks that orders entering the book (create / approve) satisfy Inv"""
    def g(sc, req, path):
        yield from fn(sc, req, path)
        if req['kind'] in ('CreateAsk', 'CreateBid', 'ApproveAsk'):
            yield from inv_step(sc, req, path)
    return g


for _p in ('C02', 'C03', 'C04', 'C09'):
    PROPS[_p] = with_inv_establishment(PROPS[_p])


def c16_then_cancel(sc, qreq, qpath, req2, p2):
    """the amounts an order query reported are the amounts the owner's cancel, issued next with the same id, returns"""
    ti = sc.ti
    r = qpath.resp
    val = r.fields[0].a[0] if isinstance(r, Adt) and r.ty == 'Binary' and isinstance(r.fields[0], Opaque) and r.fields[0].tag == 'Json' else None
    if val is None:
        return
    trs = transfers(p2)
    same_id = req2['id'] == qreq['id']
    if val.ty == 'AskOrderV1':
        a = ask_view(ti, val)
        who = req2['sender'] == a['owner']
        goal = paid(trs, a['owner'], a['base']) >= a['size']
        if a['cls'] == 'Ready':
            both = z3.And(a['owner'] == a['approver'], a['base'] == a['cb_denom'])
            goal = z3.If(both, paid(trs, a['owner'], a['base']) == a['size'] + a['cb_amount'], z3.And(paid(trs, a['owner'], a['base']) >= a['size'], paid(trs, a['approver'], a['cb_denom']) >= a['cb_amount']))
        yield refute('cancel_returns_what_the_query_reported', [same_id, who, z3.Not(goal)], order='ask', cls=a['cls'])
    elif val.ty == 'BidOrderV3':
        b = bid_view(ti, val)
        who = req2['sender'] == b['owner']
        yield refute('cancel_returns_what_the_query_reported', [same_id, who, paid(trs, b['owner'], b['quote_denom']) != b['rem_q'] + b['rem_f']], order='bid', fee=b['hasfee'])


def c15_then_cancel(fol, sc, req2, p2):
    """an accepted owner-cancel of a converted legacy bid returns the original quote and fee minus the sums over its event log, and removes it"""
    ti = sc.ti
    trs = transfers(p2)
    for i, e in enumerate(sc.world.maps['bid']):
        if e.fmt != 'BidOrderV2':
            continue
        rec = sc.bids[i]
        old = e.val
        sb, sq, sf = v2_sums(rec)
        g = lambda n: ti.get(old, n)
        quote, fee, owner = g('quote'), g('fee'), uv(g('owner'))
        remaining = uv(quote.fields[1]) - sq + ((uv(fee.fields[0].fields[1]) - sf) if fee.variant == 'Some' else 0)
        m = z3.And(req2['id'] == e.key)
        post = p2.world.maps['bid'][i]
        yield refute('converted_bid_cancels_like_a_native_one', [m, z3.Not(z3.And(paid(trs, owner, quote.fields[0]) == remaining, z3.Not(post.present)))], events=len(rec['events']))
