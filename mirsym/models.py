"""Library models for mirsym: every dependency call reachable from the contract's entry points.

Each model returns a list of guarded outcomes (cond, value[, effect]); `cond` is True or a z3 Bool,
`effect(state)` (optional) is applied to the state that takes this outcome (after forking).
An unmodelled callee raises Unsupported in the engine (check ends INCONCLUSIVE).
"""
import re
import z3
from .engine import f_marker_status, f_dec_canon, f_uuid_nil, f_dec_scale, dec_T
from .engine import (Adt, Ref, Cell, BoxCell, Opaque, Unsupported, clone, lit, lit_value, EMPTY, StrS, PANIC, some, NONE, ok, err, unit, U, Dec,
                     f_uuid_ok, f_uuid_hyph, f_dec_ok, f_dec_n, f_dec_d, f_addr_ok, f_marker_found, f_marker_dec, f_marker_type,
                     f_attr_ok, f_sv_ok, f_sv_maj, f_sv_min, f_sv_pat, f_sv_pre, f_numstr, strip_generics)

f_decstr = z3.Function('decstr', z3.IntSort(), z3.IntSort(), StrS)      # Decimal::to_string of a computed value
f_deccanon = z3.Function('deccanon', StrS, StrS)                        # Decimal::to_string of a value parsed from that text
POW10 = [10 ** i for i in range(40)]
TWO96 = 2 ** 96
TWO128 = 2 ** 128


class Entry:
    __slots__ = ('key', 'present', 'val', 'fmt')

    def __init__(self, key, present, val, fmt):
        self.key, self.present, self.val, self.fmt = key, present, val, fmt

    def clone_into(self, memo):
        e = Entry(self.key, self.present, clone(self.val, memo), self.fmt)
        memo[id(self)] = e
        return e


KNOWN_MAPS = ('ask', 'bid')
KNOWN_ITEMS = ('contract_info', 'version_info')


class _NsMaps(dict):
    """namespace -> entries.  A namespace the state invariant does not describe (an auxiliary index a change introduced) is
    empty in a world grown from the empty store (`closed`) and unknown in an arbitrary pre-state (reported, never guessed)."""

    def __init__(self, world, *a):
        dict.__init__(self, *a)
        self.world = world

    def __missing__(self, ns):
        if not self.world.closed:
            raise Unsupported('storage namespace %r is not described by the state invariant (unknown content in an arbitrary pre-state)' % (ns,))
        self[ns] = []
        return self[ns]


class _NsRest(dict):
    def __missing__(self, ns):
        return z3.BoolVal(False)


class _NsItems(dict):
    def __init__(self, world, *a):
        dict.__init__(self, *a)
        self.world = world

    def _chk(self, ns):
        if ns not in KNOWN_ITEMS and not dict.__contains__(self, ns) and not self.world.closed:
            raise Unsupported('storage item %r is not described by the state invariant (unknown content in an arbitrary pre-state)' % (ns,))

    def get(self, ns, default=None):
        self._chk(ns)
        return dict.get(self, ns, default)

    def __missing__(self, ns):
        self._chk(ns)
        raise KeyError(ns)


class World:
    """symbolic contract storage + chain environment"""

    def __init__(self):
        self.closed = False        # True: grown from the empty store, every namespace not written yet is empty
        self.items = _NsItems(self)            # namespace string -> Adt or None
        self.maps = _NsMaps(self, {'ask': [], 'bid': []})
        self.rest_nonempty = _NsRest({'ask': z3.BoolVal(False), 'bid': z3.BoolVal(False)})
        self.log = []              # (op, ns, key, val)
        self.attr_names = {}       # not used symbolically; account attribute lists are per scenario
        self.attrs = None          # list of Str terms: attribute names of the queried account, or None => query error symbolic
        self.readonly = False
        self.ties = []             # (n, d, r) of roundings taken with the half-unit-tie tolerance (28-digit quotient)
        self.floor_ties = []       # (n, d, r) of truncations / ceilings of such quotients (tolerance at exact integers)
        self.ties_mark = 0         # index in `ties` where the roundings of the request being run start (histories accumulate earlier ones)

    def clone_into(self, memo):
        w = World()
        memo[id(self)] = w
        w.closed = self.closed
        w.items = _NsItems(w, {k: clone(v, memo) for k, v in self.items.items()})
        w.maps = _NsMaps(w, {k: [clone(e, memo) for e in v] for k, v in self.maps.items()})
        w.rest_nonempty = _NsRest(self.rest_nonempty)
        w.log = list(self.log)
        w.attrs = self.attrs
        w.readonly = self.readonly
        w.ties = list(self.ties)
        w.floor_ties = list(self.floor_ties)
        w.ties_mark = self.ties_mark
        return w


def uval(ex, v):
    v = ex.deref(v)
    return v.fields[0] if isinstance(v, Adt) else v


def sval(ex, v):
    """string term of a String / &str / Addr value"""
    v = ex.deref(v)
    if isinstance(v, Adt) and v.ty == 'Addr':
        return v.fields[0]
    return v


def struct_eq(x, y):
    if isinstance(x, Ref) or isinstance(y, Ref):
        raise Unsupported('eq on refs')
    if isinstance(x, Adt) and isinstance(y, Adt):
        if x.ty == 'Decimal' and y.ty == 'Decimal':
            return x.fields[0] * y.fields[1] == y.fields[0] * x.fields[1]
        if x.variant != y.variant or len(x.fields) != len(y.fields):
            return z3.BoolVal(False)
        return z3.And(*[struct_eq(p, q) for p, q in zip(x.fields, y.fields)]) if x.fields else z3.BoolVal(True)
    if isinstance(x, list) and isinstance(y, list):
        if len(x) != len(y):
            return z3.BoolVal(False)
        return z3.And(*[struct_eq(p, q) for p, q in zip(x, y)]) if x else z3.BoolVal(True)
    if isinstance(x, (bool, int)) and isinstance(y, (bool, int)):
        return z3.BoolVal(x == y)
    if isinstance(x, Opaque) or isinstance(y, Opaque):
        raise Unsupported('eq on opaque %r %r' % (x, y))
    return x == y


def full_deref(ex, v):
    v = ex.deref(v)
    return v


# ------------------------------------------------------------------ generic std
def m_identity(ex, st, a, c, m):
    return [(True, a[0])]


def m_deref_val(ex, st, a, c, m):
    return [(True, ex.deref(a[0]))]


def m_clone(ex, st, a, c, m):
    return [(True, clone(ex.deref(a[0]), {}))]


def m_eq(ex, st, a, c, m):
    r = struct_eq(full_deref(ex, a[0]), full_deref(ex, a[1]))
    return [(True, z3.Not(r) if c.endswith('::ne') else r)]


def m_not(ex, st, a, c, m):
    return [(True, z3.Not(ex.deref(a[0])))]


def m_vec_new(ex, st, a, c, m):
    return [(True, [])]


def m_vec_push(ex, st, a, c, m):
    ex.deref(a[0]).append(a[1])
    return [(True, unit())]


def m_len(ex, st, a, c, m):
    return [(True, z3.IntVal(len(ex.deref(a[0]))))]


def m_list_is_empty(ex, st, a, c, m):
    return [(True, z3.BoolVal(len(ex.deref(a[0])) == 0))]


def m_str_is_empty(ex, st, a, c, m):
    return [(True, sval(ex, a[0]) == EMPTY)]


def m_contains(ex, st, a, c, m):
    l, x = ex.deref(a[0]), full_deref(ex, a[1])
    if isinstance(l, Adt) and l.ty == 'HashSet':
        l = l.fields[0]
    return [(True, z3.Or(*[struct_eq(e, x) for e in l]) if l else z3.BoolVal(False))]


def m_is_subset(ex, st, a, c, m):
    x, y = ex.deref(a[0]).fields[0], ex.deref(a[1]).fields[0]
    return [(True, z3.And(*[z3.Or(*[struct_eq(e, f) for f in y]) if y else z3.BoolVal(False) for e in x]) if x else z3.BoolVal(True))]


def m_box_uninit(ex, st, a, c, m):
    return [(True, Adt('Box', None, [Ref(BoxCell(None), [])]))]


def m_box_into_vec(ex, st, a, c, m):
    return [(True, a[0].fields[0].cell.v)]


def m_unwrap(ex, st, a, c, m):
    r = a[0]
    return [(True, r.fields[0] if r.variant in ('Ok', 'Some') else PANIC('unwrap on ' + r.variant))]


def m_is_err(ex, st, a, c, m):
    return [(True, z3.BoolVal(ex.deref(a[0]).variant == 'Err'))]


def m_is_some(ex, st, a, c, m):
    return [(True, z3.BoolVal(ex.deref(a[0]).variant == 'Some'))]


def m_ok_or(ex, st, a, c, m):
    return [(True, ok(a[0].fields[0]) if a[0].variant == 'Some' else err(a[1]))]


def m_result_ok(ex, st, a, c, m):
    return [(True, some(a[0].fields[0]) if a[0].variant == 'Ok' else NONE())]


def _apply_fn(ex, st, f, callee, args):
    """apply a fn item / closure value to args -> list of (cond, value)"""
    if isinstance(f, Opaque) and f.tag == 'fn':
        ty, var = ex.split_variant(f.a[0])
        if var is not None:
            return [(True, Adt(ty, var, list(args)))]
        return apply_callable(ex, st, f, callee, args)
    clo = ex.closure_text(callee)
    if clo is None:
        raise Unsupported('no closure in ' + callee)
    return ex.call_closure(st, clo, f, list(args))


def m_map_err(ex, st, a, c, m):
    r = a[0]
    if r.variant == 'Ok':
        return [(True, r)]
    return [(cnd, err(v) if not (isinstance(v, Opaque) and v.tag == 'PANIC') else v) for cnd, v in _apply_fn(ex, st, a[1], c, [r.fields[0]])]


def m_option_map(ex, st, a, c, m):
    o = a[0]
    if o.variant == 'None':
        return [(True, o)]
    return [(cnd, v if isinstance(v, Opaque) and v.tag in ('PANIC', 'OOB') else some(v)) for cnd, v in _apply_fn(ex, st, a[1], c, [o.fields[0]])]


def m_try_branch(ex, st, a, c, m):
    r = a[0]
    if r.variant == 'Ok':
        return [(True, Adt('ControlFlow', 'Continue', [r.fields[0]]))]
    return [(True, Adt('ControlFlow', 'Break', [err(r.fields[0])]))]


def m_from_residual(ex, st, a, c, m):
    e = a[0].fields[0]
    s = strip_generics(c)
    mm = re.match(r'^<Result<.*, ([\w:]+)> as FromResidual<Result<Infallible, ([\w:]+)>>>::from_residual$', s)
    if not mm:
        raise Unsupported('from_residual ' + s)
    tgt, src = mm.group(1), mm.group(2)
    if tgt.split('::')[-1] == src.split('::')[-1] and (tgt.split('::')[-1] != 'Error'):
        return [(True, err(e))]
    if tgt == src:
        return [(True, err(e))]
    # find the crate's From impl:  fn <..>::from(_1: SRC) -> TGT
    src_last = src.split('::')[-1]
    for n, bdy in [(n, b_) for n in ex.by_last.get('from', []) for b_ in ex.items[n]]:
        sig = bdy.sig
        sm = re.search(r'\(_1: ([^)]*)\) -> ([\w:]+)', sig)
        if not sm:
            continue
        a_ty, r_ty = sm.group(1), sm.group(2)
        if r_ty.split('::')[-1] != tgt.split('::')[-1]:
            continue
        if a_ty.split('::')[-1] != src_last:
            continue
        if src_last == 'Error' and a_ty.split('::')[0] != src.split('::')[0]:
            continue
        ex.body(n, bdy)
        ex.functions_entered.add(n)
        from .engine import State, Frame
        sub = State()
        sub.pc = list(st.pc)
        sub.world = st.world
        out = Cell()
        sub.frames.append(Frame(bdy, n, [e], (out, [])))
        res = [r for r in ex.run(sub) if r.outcome[0] != 'infeasible']
        assert len(res) == 1 and res[0].outcome[0] == 'return', 'From impl forked'
        return [(True, err(out.v))]
    raise Unsupported('no From impl for %s -> %s' % (src, tgt))


# ------------------------------------------------------------------ iterators
ITER_TYPES = ('Iter', 'MapIter', 'FilterMapIter', 'FlatMapIter', 'MapWhileIter', 'FilterIter', 'ChainIter', 'FlattenIter')


def m_into_iter(ex, st, a, c, m):
    v = ex.deref(a[0])
    if isinstance(v, Adt) and v.ty in ITER_TYPES:
        return [(True, v)]                                  # an iterator is its own IntoIterator
    if isinstance(v, Adt) and v.ty in ('Option', 'Result'):
        return [(True, Adt('Iter', None, [[v.fields[0]] if v.variant in ('Some', 'Ok') else [], 0]))]
    if isinstance(v, Adt) and v.ty == 'HashSet':
        raise Unsupported('iteration order of a HashSet')
    return [(True, Adt('Iter', None, [list(v), 0]))]


def m_slice_iter(ex, st, a, c, m):
    return [(True, Adt('Iter', None, [list(ex.deref(a[0])), 0]))]


def m_iter_next(ex, st, a, c, m):
    it = ex.deref(a[0])
    items, pos = it.fields
    if pos < len(items):
        it.fields[1] = pos + 1
        return [(True, some(items[pos]))]
    return [(True, NONE())]


def m_iter_map(ex, st, a, c, m):
    return [(True, Adt('MapIter', None, [a[0], a[1], ex.closure_text(c)]))]


def m_iter_filter_map(ex, st, a, c, m):
    return [(True, Adt('FilterMapIter', None, [a[0], a[1], ex.closure_text(c)]))]


def m_iter_map_while(ex, st, a, c, m):
    return [(True, Adt('MapWhileIter', None, [a[0], a[1], ex.closure_text(c)]))]


def _iter_items(ex, st, it):
    """materialise an iterator value into a list (closures must not fork)."""
    if it.ty == 'Iter':
        return list(it.fields[0][it.fields[1]:])
    if it.ty == 'MapIter':
        src, clo, clo_text = it.fields
        out = []
        for x in _iter_items(ex, st, src):
            r = ex.call_closure(st, clo_text, clo, [x])
            if len(r) != 1 or (isinstance(r[0][1], Opaque) and r[0][1].tag == 'PANIC'):
                raise Unsupported('forking/panicking closure in iterator map')
            out.append(r[0][1])
        return out
    if it.ty == 'FilterMapIter':
        src, clo, clo_text = it.fields
        out = []
        for x in _iter_items(ex, st, src):
            r = ex.call_closure(st, clo_text, clo, [x])
            if len(r) != 1 or not isinstance(r[0][1], Adt):
                raise Unsupported('forking closure in filter_map')
            if r[0][1].variant == 'Some':
                out.append(r[0][1].fields[0])
        return out
    if it.ty == 'MapWhileIter':
        src, clo, clo_text = it.fields
        out = []
        for x in _iter_items(ex, st, src):
            r = ex.call_closure(st, clo_text, clo, [x])
            if len(r) != 1 or not isinstance(r[0][1], Adt):
                raise Unsupported('forking closure in map_while')
            if r[0][1].variant != 'Some':
                break
            out.append(r[0][1].fields[0])
        return out
    raise Unsupported('iterator ' + it.ty)


def m_collect(ex, st, a, c, m):
    items = _iter_items(ex, st, a[0])
    if 'HashSet' in c.split('collect')[-1] or 'BTreeSet' in c.split('collect')[-1] or re.search(r'collect::<(std::collections::)?HashSet', c):
        return [(True, Adt('HashSet', None, [items]))]
    return [(True, items)]


def m_any(ex, st, a, c, m):
    it = ex.deref(a[0])
    clo_text = ex.closure_text(c)
    terms = []
    for x in _iter_items(ex, st, it):
        r = ex.call_closure(st, clo_text, a[1], [x])
        if len(r) != 1:
            raise Unsupported('forking closure in any')
        terms.append(r[0][1])
    return [(True, z3.Or(*terms) if terms else z3.BoolVal(False))]


def m_sum_uint128(ex, st, a, c, m):
    items = _iter_items(ex, st, a[0])
    tot = z3.IntVal(0)
    for x in items:
        tot = tot + uval(ex, x)
    tot = z3.simplify(tot)
    if re.search(r'::sum::<u(8|16|32|64|128|size)>', c):
        bits = int(re.search(r'::sum::<u(8|16|32|64|128|size)>', c).group(1).replace('size', '64'))
        return [(tot < 2 ** bits, tot), (tot >= 2 ** bits, PANIC('integer sum overflow'))]
    return [(tot < TWO128, U(tot)), (tot >= TWO128, PANIC('Uint128 sum overflow'))]


# ------------------------------------------------------------------ strings
def m_str_val(ex, st, a, c, m):
    return [(True, sval(ex, a[0]))]


def m_format(ex, st, a, c, m):
    return [(True, Opaque('Fmt', next(ex.fresh)))]


def m_opaque(ex, st, a, c, m):
    return [(True, Opaque('fmtarg'))]


# ------------------------------------------------------------------ uuid / semver / addr
def m_uuid_parse(ex, st, a, c, m):
    s = sval(ex, a[0])
    return [(f_uuid_ok(s), ok(Adt('Uuid', None, [s]))), (z3.Not(f_uuid_ok(s)), err(Adt('uuid::Error', None, [])))]


def m_uuid_hyphenated(ex, st, a, c, m):
    return [(True, Adt('Hyphenated', None, [ex.deref(a[0]).fields[0]]))]


def m_hyph_to_string(ex, st, a, c, m):
    return [(True, f_uuid_hyph(ex.deref(a[0]).fields[0]))]


f_verstr = z3.Function('verstr', z3.IntSort(), z3.IntSort(), z3.IntSort(), z3.BoolSort(), StrS)      # Version::to_string of a constructed version


def mk_version(maj, mi, pa, pre, src=None):
    """semver::Version { major, minor, patch, pre, build } (+ the text it was parsed from)"""
    return Adt('Version', None, [maj, mi, pa, Adt('Prerelease', None, [pre]), Opaque('build'), src])


def m_version_parse(ex, st, a, c, m):
    s = sval(ex, a[0])
    return [(f_sv_ok(s), ok(mk_version(f_sv_maj(s), f_sv_min(s), f_sv_pat(s), f_sv_pre(s), s))), (z3.Not(f_sv_ok(s)), err(Adt('semver::Error', None, [])))]


def m_version_new(ex, st, a, c, m):
    return [(True, mk_version(a[0], a[1], a[2], z3.BoolVal(False)))]


def m_version_to_string(ex, st, a, c, m):
    v = ex.deref(a[0])
    if v.fields[5] is not None:
        return [(True, v.fields[5])]
    return [(True, f_verstr(v.fields[0], v.fields[1], v.fields[2], v.fields[3].fields[0]))]


def m_prerelease_is_empty(ex, st, a, c, m):
    return [(True, z3.Not(ex.deref(a[0]).fields[0]))]


def parse_version_req(text):
    """semver VersionReq literal -> list of (op, major, minor, patch) ; minor/patch None when omitted"""
    comps = []
    for part in text.split(','):
        part = part.strip()
        mm = re.match(r'^(>=|<=|>|<|=|\^|~)?\s*(\d+)(?:\.(\d+))?(?:\.(\d+))?(-[\w.]+)?$', part)
        if not mm:
            return None
        if mm.group(5):
            raise Unsupported('prerelease comparator')
        comps.append((mm.group(1) or '^', int(mm.group(2)), None if mm.group(3) is None else int(mm.group(3)), None if mm.group(4) is None else int(mm.group(4))))
    return comps


def m_versionreq_parse(ex, st, a, c, m):
    s = sval(ex, a[0])
    text = lit_value(s)
    if text is None:
        raise Unsupported('VersionReq::parse of non-literal')
    comps = parse_version_req(text)
    if comps is None:
        return [(True, err(Adt('semver::Error', None, [])))]
    return [(True, ok(Adt('VersionReq', None, [Opaque('req', text, tuple(comps))])))]


def lex_cmp(maj, mi, pa, M, N, P):
    """(lt, eq) of (maj,mi,pa) vs (M,N,P) as z3 terms"""
    lt = z3.Or(maj < M, z3.And(maj == M, mi < N), z3.And(maj == M, mi == N, pa < P))
    eq = z3.And(maj == M, mi == N, pa == P)
    return lt, eq


def comparator_matches(op, M, N, P, maj, mi, pa):
    if op in ('>=', '>', '<', '<='):
        if N is None:
            # partial versions: ">=1" means >=1.0.0 ; ">1" means >=2.0.0 ; "<1" <1.0.0 ; "<=1" <2.0.0
            if op == '>=':
                return maj >= M
            if op == '>':
                return maj > M
            if op == '<':
                return maj < M
            return maj <= M
        if P is None:
            if op == '>=':
                return z3.Or(maj > M, z3.And(maj == M, mi >= N))
            if op == '>':
                return z3.Or(maj > M, z3.And(maj == M, mi > N))
            if op == '<':
                return z3.Or(maj < M, z3.And(maj == M, mi < N))
            return z3.Or(maj < M, z3.And(maj == M, mi <= N))
        lt, eq = lex_cmp(maj, mi, pa, M, N, P)
        return {'>=': z3.Not(lt), '>': z3.And(z3.Not(lt), z3.Not(eq)), '<': lt, '<=': z3.Or(lt, eq)}[op]
    if op == '=':
        if N is None:
            return maj == M
        if P is None:
            return z3.And(maj == M, mi == N)
        return z3.And(maj == M, mi == N, pa == P)
    if op == '~':
        if N is None:
            return maj == M
        if P is None:
            return z3.And(maj == M, mi == N)
        return z3.And(maj == M, mi == N, pa >= P)
    if op == '^':
        if N is None:
            return maj == M
        if P is None:
            return z3.And(maj == M, mi == N) if M == 0 else z3.And(maj == M, mi >= N)
        if M > 0:
            return z3.And(maj == M, z3.Or(mi > N, z3.And(mi == N, pa >= P)))
        if N > 0:
            return z3.And(maj == 0, mi == N, pa >= P)
        return z3.And(maj == 0, mi == 0, pa == P)
    raise Unsupported('comparator ' + op)


def m_versionreq_matches(ex, st, a, c, m):
    req = ex.deref(a[0]).fields[0]
    ver = ex.deref(a[1])
    maj, mi, pa, pre = ver.fields[0], ver.fields[1], ver.fields[2], ver.fields[3].fields[0]
    terms = [comparator_matches(op, M, N, P, maj, mi, pa) for op, M, N, P in req.a[1]]
    # semver: a version with a pre-release tag only matches if some comparator carries one for the same triple (none here)
    return [(True, z3.And(z3.Not(pre), *terms))]


def m_addr_validate(ex, st, a, c, m):
    s = sval(ex, a[1])
    return [(f_addr_ok(s), ok(Adt('Addr', None, [s]))), (z3.Not(f_addr_ok(s)), err(Adt('StdError', 'GenericErr', [Opaque('addr msg')])))]


# ------------------------------------------------------------------ Uint128 / u128
def m_u_new(ex, st, a, c, m):
    return [(True, U(uval(ex, a[0])))]


def m_u_zero(ex, st, a, c, m):
    return [(True, U(0))]


def m_u_is_zero(ex, st, a, c, m):
    return [(True, uval(ex, a[0]) == 0)]


def m_u_val(ex, st, a, c, m):
    return [(True, uval(ex, a[0]))]


def m_u_cmp(ex, st, a, c, m):
    x, y = uval(ex, a[0]), uval(ex, a[1])
    op = c.rsplit('::', 1)[1]
    return [(True, {'lt': x < y, 'gt': x > y, 'le': x <= y, 'ge': x >= y, 'eq': x == y, 'ne': x != y}[op])]


def m_u_sub(ex, st, a, c, m):
    x, y = uval(ex, a[0]), uval(ex, a[1])
    return [(x >= y, U(x - y)), (x < y, PANIC('Uint128 sub underflow'))]


def m_u_add(ex, st, a, c, m):
    x, y = uval(ex, a[0]), uval(ex, a[1])
    return [(x + y < TWO128, U(x + y)), (x + y >= TWO128, PANIC('Uint128 add overflow'))]


def m_u_sub_assign(ex, st, a, c, m):
    r = a[0]
    x = ex.read(r.cell, r.path)
    xv, yv = x.fields[0], uval(ex, a[1])

    def eff(st2, r=r, xv=xv, yv=yv):
        pass
    # in-place write happens before forking: the panic outcome discards the state anyway
    ex.write(r.cell, r.path, U(xv - yv))
    return [(xv >= yv, unit()), (xv < yv, PANIC('Uint128 sub_assign underflow'))]


def m_u_checked_sub(ex, st, a, c, m):
    x, y = uval(ex, a[0]), uval(ex, a[1])
    return [(x >= y, ok(U(x - y))), (x < y, err(Adt('OverflowError', None, [])))]


def m_u_checked_add(ex, st, a, c, m):
    x, y = uval(ex, a[0]), uval(ex, a[1])
    return [(x + y < TWO128, ok(U(x + y))), (x + y >= TWO128, err(Adt('OverflowError', None, [])))]


def m_u_to_string(ex, st, a, c, m):
    return [(True, f_numstr(uval(ex, a[0])))]


def m_pow(ex, st, a, c, m):
    b, e = a[0], a[1]
    b = z3.simplify(b) if isinstance(b, z3.ExprRef) else z3.IntVal(b)
    if not (z3.is_int_value(b) and b.as_long() == 10):
        raise Unsupported('pow with base %s' % b)
    e = z3.simplify(e)
    if z3.is_int_value(e):
        k = e.as_long()
        return [(True, z3.IntVal(10 ** k))] if k <= 38 else [(True, PANIC('pow overflow'))]
    iv = ex.interval(e)
    lo, hi = (max(iv[0], 0), min(iv[1], 38)) if iv is not None else (0, 38)
    t = z3.IntVal(POW10[hi])
    for k in range(hi - 1, lo - 1, -1):
        t = z3.If(e == k, z3.IntVal(POW10[k]), t)
    if iv is not None and 0 <= iv[0] and iv[1] <= 38:
        return [(True, t)]
    return [(z3.And(e >= lo, e <= hi), t), (e > 38, PANIC('pow overflow'))]


# ------------------------------------------------------------------ Decimal
def dec(ex, v):
    v = ex.deref(v)
    assert isinstance(v, Adt) and v.ty == 'Decimal', v
    return v


def m_dec_from_str(ex, st, a, c, m):
    s = sval(ex, a[0])
    sc = f_dec_scale(s)
    k = len(str(dec_T())) - 1
    fact = z3.Or(*[z3.And(sc == j, f_dec_n(s) % (10 ** (k - j)) == 0) for j in range(k + 1)])      # the text has sc <= k fractional digits
    ex.set_bound(sc, 0, k)
    if not hasattr(ex, 'scale_facts'):
        ex.scale_facts = {}
    ex.scale_facts[s.get_id()] = (s, fact)          # added to a path only when the path looks at the representation (scale / mantissa / rescale)
    return [(f_dec_ok(s), ok(Dec(f_dec_n(s), f_dec_d(s), False, s, None, sc))), (z3.Not(f_dec_ok(s)), err(Adt('rust_decimal::Error', None, [])))]


def _fits96(ex, n):
    iv = ex.interval(n)
    return iv is not None and -TWO96 < iv[0] and iv[1] < TWO96


def m_dec_from_u128(ex, st, a, c, m):
    n = uval(ex, a[0])
    if _fits96(ex, n):
        return [(True, Dec(n, z3.IntVal(1)))]
    return [(n < TWO96, Dec(n, z3.IntVal(1))), (n >= TWO96, PANIC('Decimal::from(u128) out of range'))]


def m_dec_from_int(ex, st, a, c, m):
    return [(True, Dec(uval(ex, a[0]), z3.IntVal(1)))]


def m_dec_from_u128_opt(ex, st, a, c, m):
    n = uval(ex, a[0])
    if _fits96(ex, n):
        return [(True, some(Dec(n, z3.IntVal(1))))]
    return [(n < TWO96, some(Dec(n, z3.IntVal(1)))), (n >= TWO96, NONE())]


def _mul_exact_static(ex, x, y):
    """True iff interval analysis shows the product is exactly representable (96-bit mantissa, scale <= 28)."""
    n = ex.interval(x.fields[0] * y.fields[0])
    d = ex.interval(x.fields[1] * y.fields[1])
    return n is not None and d is not None and -TWO96 < n[0] and n[1] < TWO96 and d[1] <= 10 ** 28


def dscale(x):
    """rust_decimal's scale of the value (Int term) or None if not tracked"""
    sc = x.fields[5] if len(x.fields) > 5 else None
    if sc is None and z3.is_int_value(x.fields[1]) and x.fields[1].as_long() == 1 and not x.fields[2]:
        return z3.IntVal(0)
    return sc


def _smax(a_, b_):
    if a_ is None or b_ is None:
        return None
    return z3.simplify(z3.If(a_ >= b_, a_, b_))


def m_dec_mul(ex, st, a, c, m):
    x, y = dec(ex, a[0]), dec(ex, a[1])
    inexact = bool(x.fields[2] or y.fields[2])
    n = z3.simplify(x.fields[0] * y.fields[0])
    d = z3.simplify(x.fields[1] * y.fields[1])
    factors = None
    for u, v in ((x, y), (y, x)):
        fu = u.fields[4] if len(u.fields) > 4 else None
        if fu is not None and fu[1] is None and z3.is_int_value(v.fields[1]) and v.fields[1].as_long() == 1 and not v.fields[2]:
            factors = (fu[0], v.fields[0], fu[2])
    sx, sy = dscale(x), dscale(y)
    r = some(Dec(n, d, inexact, None, factors, (z3.simplify(sx + sy) if sx is not None and sy is not None and not inexact else None)))
    if z3.is_app(n) and n.decl().kind() == z3.Z3_OP_MUL:
        ex.range_fact(st, n)
    if z3.is_app(d) and d.decl().kind() == z3.Z3_OP_MUL:
        ex.range_fact(st, d)
    if inexact or _mul_exact_static(ex, x, y):
        return [(True, r)]
    fits = z3.And(n < TWO96, n > -TWO96, d <= 10 ** 28)
    return [(fits, r), (z3.Not(fits), Opaque('OOB', 'checked_mul beyond 96 bits / scale 28'))]


def m_dec_div(ex, st, a, c, m):
    x, y = dec(ex, a[0]), dec(ex, a[1])
    n = z3.simplify(x.fields[0] * y.fields[1])
    d = z3.simplify(x.fields[1] * y.fields[0])
    one = lambda t: z3.is_int_value(t) and t.as_long() == 1
    ratio = (x.fields[0], None, y.fields[0]) if one(x.fields[1]) and one(y.fields[1]) else None
    return [(y.fields[0] > 0, some(Dec(n, d, True, None, ratio))), (y.fields[0] == 0, NONE()), (y.fields[0] < 0, Opaque('OOB', 'negative divisor'))]


def m_dec_sub(ex, st, a, c, m):
    x, y = dec(ex, a[0]), dec(ex, a[1])
    if z3.eq(x.fields[1], y.fields[1]):
        return [(True, some(Dec(x.fields[0] - y.fields[0], x.fields[1], bool(x.fields[2] or y.fields[2]), None, None, _smax(dscale(x), dscale(y)))))]
    return [(True, some(Dec(x.fields[0] * y.fields[1] - y.fields[0] * x.fields[1], x.fields[1] * y.fields[1], bool(x.fields[2] or y.fields[2]), None, None, _smax(dscale(x), dscale(y)))))]


def m_dec_fract(ex, st, a, c, m):
    x = dec(ex, a[0])
    n, d = x.fields[0], x.fields[1]
    if z3.is_int_value(d) and d.as_long() == 1:
        return [(True, Dec(z3.IntVal(0), z3.IntVal(1)))]
    if z3.is_int_value(d):
        return [(n >= 0, Dec(n % d, d, False, None, None, dscale(x))), (n < 0, Opaque('OOB', 'fract of negative'))]
    q, r = ex.euclid(st, n, d)
    return [(n >= 0, Dec(r, d)), (n < 0, Opaque('OOB', 'fract of negative'))]


def m_dec_zero(ex, st, a, c, m):
    return [(True, Dec(z3.IntVal(0), z3.IntVal(1)))]


def m_dec_cmp_op(ex, st, a, c, m):
    x, y = dec(ex, a[0]), dec(ex, a[1])
    l, r = x.fields[0] * y.fields[1], y.fields[0] * x.fields[1]
    op = c.rsplit('::', 1)[1]
    return [(True, {'eq': l == r, 'ne': l != r, 'lt': l < r, 'le': l <= r, 'gt': l > r, 'ge': l >= r}[op])]


def m_dec_cmp(ex, st, a, c, m):
    x, y = dec(ex, a[0]), dec(ex, a[1])
    l, r = x.fields[0] * y.fields[1], y.fields[0] * x.fields[1]
    return [(l < r, Adt('Ordering', 'Less', [])), (l == r, Adt('Ordering', 'Equal', [])), (l > r, Adt('Ordering', 'Greater', []))]


def m_dec_is_zero(ex, st, a, c, m):
    return [(True, dec(ex, a[0]).fields[0] == 0)]


def m_dec_is_neg(ex, st, a, c, m):
    return [(True, dec(ex, a[0]).fields[0] < 0)]


def m_dec_to_u128(ex, st, a, c, m):
    x = dec(ex, a[0])
    n, d = x.fields[0], x.fields[1]
    if z3.is_int_value(d) and d.as_long() == 1:
        return [(n >= 0, some(n)), (n < 0, NONE())]
    if x.fields[2]:
        # the value went through rust_decimal's 28-digit quotient: truncation with the exact-integer tolerance
        outs = m_dec_round(ex, st, [a[0], z3.IntVal(0), Adt('RoundingStrategy', 'ToZero', [])], c, m)
        return [(cnd, some(v.fields[0]) if isinstance(v, Adt) and v.ty == 'Decimal' else (NONE() if isinstance(v, Opaque) and v.tag == 'OOB' else v)) for cnd, v in outs]
    if z3.is_int_value(d):
        return [(n >= 0, some(n / d)), (n < 0, NONE())]
    q, r = ex.euclid(st, n, d)
    return [(n >= 0, some(q)), (n < 0, NONE())]


def m_dec_to_string(ex, st, a, c, m):
    x = dec(ex, a[0])
    if x.fields[3] is not None:
        src = x.fields[3]
        fact = (f_deccanon(src) == src) == f_dec_canon(src)          # printing a parsed decimal gives its own text back exactly for canonical texts
        if not any(z3.eq(fact, p_) for p_ in st.pc):
            st.pc.append(fact)
            st.pc.append(f_dec_canon(f_deccanon(src)))
        return [(True, f_deccanon(src))]
    return [(True, f_decstr(x.fields[0], x.fields[1]))]


def round_constraint(strategy, n, d, r, tolerant):
    """constraint saying r = round(n/d) to an integer under `strategy`, for n >= 0, d > 0.
    tolerant: value came through rust_decimal's 28-digit quotient; at an exact half-unit tie the lower neighbour is possible too."""
    h = 2 * n + d
    if strategy in ('MidpointAwayFromZero', 'RoundHalfUp'):
        if tolerant:
            return z3.And(2 * d * r <= h, h <= 2 * d * (r + 1))
        return z3.And(2 * d * r <= h, h < 2 * d * (r + 1))
    if strategy in ('MidpointTowardZero', 'RoundHalfDown'):
        if tolerant:
            return z3.And(2 * d * (r - 1) <= 2 * n - d, 2 * n - d <= 2 * d * r, r >= 0)
        return z3.And(2 * d * (r - 1) < 2 * n - d, 2 * n - d <= 2 * d * r, r >= 0)
    if strategy in ('MidpointNearestEven', 'BankersRounding'):
        if tolerant:
            return z3.And(2 * d * r <= h, h <= 2 * d * (r + 1))
        return z3.Or(z3.And(2 * d * r <= h, h < 2 * d * (r + 1), z3.Not(z3.And(h == 2 * d * r, r % 2 == 1))),
                     z3.And(h == 2 * d * (r + 1), (r + 1) % 2 == 1))
    if strategy in ('ToZero', 'RoundDown', 'ToNegativeInfinity'):
        if tolerant:
            return z3.And(d * r <= n, n <= d * (r + 1), r >= 0)     # a 28-digit quotient just below an exact integer truncates to its lower neighbour
        return z3.And(d * r <= n, n < d * (r + 1))
    if strategy in ('AwayFromZero', 'RoundUp', 'ToPositiveInfinity'):
        if tolerant:
            return z3.And(d * (r - 1) <= n, n <= d * r)
        return z3.And(d * (r - 1) < n, n <= d * r)
    raise Unsupported('rounding strategy ' + strategy)


def m_dec_round(ex, st, a, c, m):
    x = dec(ex, a[0])
    n, d, inexact = x.fields[:3]
    dp = z3.simplify(a[1]) if isinstance(a[1], z3.ExprRef) else z3.IntVal(a[1])
    strat = a[2]
    if not (z3.is_int_value(dp) and dp.as_long() == 0):
        raise Unsupported('round_dp to %s places' % dp)
    if z3.is_int_value(d) and d.as_long() == 1:
        return [(True, Dec(n, z3.IntVal(1)))]
    if z3.is_int_value(d) and not inexact:
        # constant denominator: closed forms (n >= 0)
        sv = strat.variant
        if sv in ('MidpointAwayFromZero', 'RoundHalfUp'):
            r = (2 * n + d) / (2 * d)
        elif sv in ('MidpointTowardZero', 'RoundHalfDown'):
            r = (2 * n + d - 1) / (2 * d)
        elif sv in ('ToZero', 'RoundDown', 'ToNegativeInfinity'):
            r = n / d
        elif sv in ('AwayFromZero', 'RoundUp', 'ToPositiveInfinity'):
            r = (n + d - 1) / d
        elif sv in ('MidpointNearestEven', 'BankersRounding'):
            up = (2 * n + d) / (2 * d)
            r = z3.If(z3.And((2 * n + d) % (2 * d) == 0, up % 2 == 1), up - 1, up)
        else:
            raise Unsupported('rounding strategy %s' % sv)
        return [(n >= 0, Dec(r, z3.IntVal(1))), (n < 0, Opaque('OOB', 'rounding a negative value'))]
    key = (n.get_id(), d.get_id(), strat.variant)
    hit = ex._round.get(key)
    if hit is None or not (z3.eq(hit[0], n) and z3.eq(hit[1], d)):
        r = z3.Int('rnd!%d' % next(ex.fresh))
        hit = ex._round[key] = (n, d, r)
    r = hit[2]
    cons = round_constraint(strat.variant, n, d, r, bool(inexact))
    if inexact and st.world is not None:
        if strat.variant in ('ToZero', 'RoundDown', 'ToNegativeInfinity', 'AwayFromZero', 'RoundUp', 'ToPositiveInfinity'):
            st.world.floor_ties.append((n, d, r, x.fields[4] if len(x.fields) > 4 else None))
        else:
            st.world.ties.append((n, d, r, x.fields[4] if len(x.fields) > 4 else None))
    if not any(z3.eq(cons, p) for p in st.pc):
        st.pc.append(cons)
        st.pc.append(z3.And(r >= 0, r <= n + 1))       # linear range fact for the pruning tier (n >= 0, d >= 1)
    return [(n >= 0, Dec(r, z3.IntVal(1))), (n < 0, Opaque('OOB', 'rounding a negative value'))]


# ------------------------------------------------------------------ storage (cw-storage-plus)
def _map_ns(ex, mapv):
    ns = lit_value(ex.deref(mapv).fields[0])
    if ns is None:
        raise Unsupported('symbolic map namespace')
    return ns


def _map_type(c):
    mm = re.search(r'Map::<[^>]*?, &\[u8\], (\w+)>', c)
    if mm:
        return mm.group(1)
    mm = re.search(r'Map::<.*?, (\w+)>::', c)
    return mm.group(1) if mm else None


def m_map_new(ex, st, a, c, m):
    return [(True, Adt('Map', None, [sval(ex, a[0])]))]


def m_item_new(ex, st, a, c, m):
    return [(True, Adt('Item', None, [sval(ex, a[0])]))]


def _entry_match(e, key):
    return z3.And(e.present, key == e.key) if not z3.eq(key, e.key) else e.present


def _load_outcomes(ex, st, ns, key, ty):
    w = st.world
    outs, neg = [], []
    for i, e in enumerate(w.maps[ns]):
        cnd = z3.simplify(_entry_match(e, key))
        if z3.is_false(cnd):
            continue
        neg.append(z3.Not(cnd))
        if ty is not None and e.fmt != ty:
            outs.append((cnd, ('parse_err', i)))
        else:
            outs.append((cnd, ('found', i)))
    outs.append((z3.And(*neg) if neg else True, ('missing', None)))
    return outs


def m_map_load(ex, st, a, c, m):
    ns, key, ty = _map_ns(ex, a[0]), sval(ex, a[2]), _map_type(c)
    st.world.log.append(('load', ns, key, None))
    res = []
    for cnd, (kind, i) in _load_outcomes(ex, st, ns, key, ty):
        if kind == 'found':
            res.append((cnd, ok(clone(st.world.maps[ns][i].val, {}))))
        elif kind == 'parse_err':
            res.append((cnd, err(Adt('StdError', 'ParseErr', [Opaque('target'), Opaque('msg')]))))
        else:
            res.append((cnd, err(Adt('StdError', 'NotFound', [Opaque('kind')]))))
    return res


def m_map_may_load(ex, st, a, c, m):
    ns, key, ty = _map_ns(ex, a[0]), sval(ex, a[2]), _map_type(c)
    st.world.log.append(('load', ns, key, None))
    res = []
    for cnd, (kind, i) in _load_outcomes(ex, st, ns, key, ty):
        if kind == 'found':
            res.append((cnd, ok(some(clone(st.world.maps[ns][i].val, {})))))
        elif kind == 'parse_err':
            res.append((cnd, err(Adt('StdError', 'ParseErr', [Opaque('target'), Opaque('msg')]))))
        else:
            res.append((cnd, ok(NONE())))
    return res


def _save_effect(ns, i, key, val, fmt):
    def eff(st2):
        w = st2.world
        v = clone(val, {})
        if i is None:
            w.maps[ns].append(Entry(key, z3.BoolVal(True), v, fmt))
        else:
            e = w.maps[ns][i]
            e.val, e.present, e.fmt = v, z3.BoolVal(True), fmt
        w.log.append(('save', ns, key, v))
    return eff


def _remove_effect(ns, i, key):
    def eff(st2):
        w = st2.world
        if i is not None:
            w.maps[ns][i].present = z3.BoolVal(False)
        w.log.append(('remove', ns, key, None))
    return eff


def _write_outcomes(ex, st, ns, key):
    """which entry a write under `key` hits: [(cond, index|None)]"""
    outs, neg = [], []
    for i, e in enumerate(st.world.maps[ns]):
        if z3.eq(key, e.key):
            return [(True, i)]
        cnd = key == e.key
        outs.append((cnd, i))
        neg.append(z3.Not(cnd))
    outs.append((z3.And(*neg) if neg else True, None))
    return outs


def m_map_save(ex, st, a, c, m):
    if st.world.readonly:
        raise Unsupported('write in read-only context')
    ns, key, ty = _map_ns(ex, a[0]), sval(ex, a[2]), _map_type(c)
    val = clone(ex.deref(a[3]), {})
    return [(cnd, ok(unit()), _save_effect(ns, i, key, val, ty or val.ty)) for cnd, i in _write_outcomes(ex, st, ns, key)]


def m_map_remove(ex, st, a, c, m):
    if st.world.readonly:
        raise Unsupported('write in read-only context')
    ns, key = _map_ns(ex, a[0]), sval(ex, a[2])
    return [(cnd, unit(), _remove_effect(ns, i, key)) for cnd, i in _write_outcomes(ex, st, ns, key)]


def m_map_update(ex, st, a, c, m):
    if st.world.readonly:
        raise Unsupported('write in read-only context')
    ns, key, ty = _map_ns(ex, a[0]), sval(ex, a[2]), _map_type(c)
    clo, clo_text = a[3], ex.closure_text(c)
    st.world.log.append(('load', ns, key, None))
    res = []
    for cnd, (kind, i) in _load_outcomes(ex, st, ns, key, ty):
        if kind == 'parse_err':
            res.append((cnd, err(Adt('StdError', 'ParseErr', [Opaque('target'), Opaque('msg')]))))
            continue
        cur = some(clone(st.world.maps[ns][i].val, {})) if kind == 'found' else NONE()
        sub_pc = st.pc + ([cnd] if cnd is not True else [])
        saved = st.pc
        st.pc = sub_pc
        try:
            rs = ex.call_closure(st, clo_text, clo, [cur])
        finally:
            st.pc = saved
        for c2, r in rs:
            cc = cnd if c2 is True else (c2 if cnd is True else z3.And(cnd, c2))
            if isinstance(r, Opaque):
                res.append((cc, r))
            elif r.variant == 'Ok':
                res.append((cc, r, _save_effect(ns, i, key, clone(r.fields[0], {}), ty or r.fields[0].ty)))
            else:
                # closure error type may need conversion into the update's error type: same type in this crate
                res.append((cc, r))
    return res


def m_map_is_empty(ex, st, a, c, m):
    ns = _map_ns(ex, a[0])
    w = st.world
    return [(True, z3.simplify(z3.And(z3.Not(w.rest_nonempty[ns]), *[z3.Not(e.present) for e in w.maps[ns]])))]


f_key_rank = z3.Function('key_rank', StrS, z3.IntSort())       # position of a key in the store's byte order (strict, total)


def m_map_range(ex, st, a, c, m):
    import itertools as _it
    ns, ty = _map_ns(ex, a[0]), _map_type(c)
    w = st.world
    if not z3.is_false(z3.simplify(w.rest_nonempty[ns])):
        raise Unsupported('range over a map with an abstract remainder')
    live = []
    for e in w.maps[ns]:
        p = z3.simplify(e.present)
        if z3.is_false(p):
            continue
        if not z3.is_true(p):
            raise Unsupported('range over entries with symbolic presence')
        if ty is not None and e.fmt != ty:
            live.append((e.key, err(Adt('StdError', 'ParseErr', [Opaque('target'), Opaque('msg')]))))
        else:
            live.append((e.key, ok(Adt('tuple', None, [e.key, clone(e.val, {})]))))
    st.world.log.append(('range', ns, None, None))
    if len(live) > 4:
        raise Unsupported('range over more than 4 entries')
    # the store iterates in key order: one outcome per ordering of the (symbolic) keys
    outs = []
    for perm in _it.permutations(range(len(live))):
        conds = [f_key_rank(live[perm[i]][0]) < f_key_rank(live[perm[i + 1]][0]) for i in range(len(perm) - 1)]
        outs.append((z3.And(*conds) if conds else True, Adt('Iter', None, [[live[j][1] for j in perm], 0])))
    return outs


def _item_ns(ex, itemv):
    ns = lit_value(ex.deref(itemv).fields[0])
    if ns is None:
        raise Unsupported('symbolic item namespace')
    return ns


def m_item_load(ex, st, a, c, m):
    ns = _item_ns(ex, a[0])
    v = st.world.items.get(ns)
    st.world.log.append(('load', ns, None, None))
    if v is None:
        return [(True, err(Adt('StdError', 'NotFound', [Opaque('kind')])))]
    return [(True, ok(clone(v, {})))]


def m_item_save(ex, st, a, c, m):
    if st.world.readonly:
        raise Unsupported('write in read-only context')
    ns = _item_ns(ex, a[0])
    v = clone(ex.deref(a[2]), {})
    st.world.items[ns] = v
    st.world.log.append(('save', ns, None, v))
    return [(True, ok(unit()))]


# ------------------------------------------------------------------ queriers
def m_wrap1(name):
    def f(ex, st, a, c, m):
        return [(True, Adt(name, None, [a[0]]))]
    return f


def m_marker_query(ex, st, a, c, m):
    d = sval(ex, a[1])
    resp_some = ok(Adt('QueryMarkerResponse', None, [some(Adt('Any', None, [d]))]))
    resp_none = ok(Adt('QueryMarkerResponse', None, [NONE()]))
    return [(f_marker_found(d), resp_some), (z3.Not(f_marker_found(d)), resp_none)]


def m_marker_tryfrom(ex, st, a, c, m):
    d = a[0].fields[0]
    acct = Adt('MarkerAccount', None, [Opaque('base_account'), Opaque('manager'), Opaque('acl'), f_marker_status(d), d, Opaque('supply'),
                                       f_marker_type(d), Opaque('sf'), Opaque('agc'), Opaque('aft'), Opaque('ra')])
    return [(f_marker_dec(d), ok(acct)), (z3.Not(f_marker_dec(d)), err(Adt('DecodeError', None, [])))]


def m_attributes_query(ex, st, a, c, m):
    acct = sval(ex, a[1])
    names = st.world.attrs if st.world.attrs is not None else []
    attrs = [Adt('PbAttribute', None, [n, Opaque('value'), Opaque('ty'), acct, Opaque('exp')]) for n in names]
    resp = ok(Adt('QueryAttributesResponse', None, [acct, attrs, NONE()]))
    return [(f_attr_ok(acct), resp), (z3.Not(f_attr_ok(acct)), err(Adt('StdError', 'GenericErr', [Opaque('query failed')])))]


def m_generic_err(ex, st, a, c, m):
    return [(True, Adt('StdError', 'GenericErr', [a[0]]))]


# ------------------------------------------------------------------ responses / messages
def m_response_new(ex, st, a, c, m):
    return [(True, Adt('Response', None, [[], [], [], NONE()]))]


def m_add_message(ex, st, a, c, m):
    a[0].fields[0].append(a[1])
    return [(True, a[0])]


def m_add_attributes(ex, st, a, c, m):
    a[0].fields[1].extend(ex.deref(a[1]))
    return [(True, a[0])]


def _attr_value(ex, v):
    v = ex.deref(v)
    if isinstance(v, Adt) and v.ty == 'Uint128':
        return f_numstr(v.fields[0])
    if isinstance(v, Adt) and v.ty == 'Addr':
        return v.fields[0]
    return v


def m_add_attribute(ex, st, a, c, m):
    a[0].fields[1].append(Adt('Attribute', None, [_attr_value(ex, a[1]), _attr_value(ex, a[2])]))
    return [(True, a[0])]


def m_attr(ex, st, a, c, m):
    return [(True, Adt('Attribute', None, [_attr_value(ex, a[0]), _attr_value(ex, a[1])]))]


def m_coins(ex, st, a, c, m):
    return [(True, [Adt('Coin', None, [sval(ex, a[1]), U(uval(ex, a[0]))])])]


def m_coin(ex, st, a, c, m):
    return [(True, Adt('Coin', None, [sval(ex, a[1]), U(uval(ex, a[0]))]))]


def m_to_json_string(ex, st, a, c, m):
    return [(True, ok(Opaque('Json', clone(ex.deref(a[0]), {}))))]


def m_to_binary(ex, st, a, c, m):
    return [(True, ok(Adt('Binary', None, [Opaque('Json', clone(ex.deref(a[0]), {}))])))]


def snake(s):
    return re.sub(r'(?<!^)(?=[A-Z])', '_', s).lower()


def m_to_value(ex, st, a, c, m):
    v = ex.deref(a[0])
    if not (isinstance(v, Adt) and v.variant is not None and not v.fields):
        raise Unsupported('to_value of %r' % (v,))
    name = v.variant
    style = ex.serde_rename.get(v.ty)
    if style == 'snake_case':
        name = snake(name)
    elif style is not None:
        raise Unsupported('serde rename_all ' + style)
    return [(True, ok(Adt('Value', 'String', [lit(name)])))]


def m_value_as_str(ex, st, a, c, m):
    v = ex.deref(a[0])
    return [(True, some(v.fields[0]) if v.variant == 'String' else NONE())]


def m_deps_branch(ex, st, a, c, m):
    return [(True, clone(ex.deref(a[0]), {}))]


def m_contract_error_to_string(ex, st, a, c, m):
    return [(True, Opaque('ErrText', ex.deref(a[0]).variant))]


RAW_MODELS = [
    # --- error plumbing
    (r'^<Result<.*> as Try>::branch$', m_try_branch),
    (r'^<Result<.*> as FromResidual<.*>>::from_residual$', m_from_residual),
    (r'^Result::map_err$', m_map_err), (r'^Result::unwrap$|^std::option::Option::unwrap$', m_unwrap),
    (r'^Result::is_err$', m_is_err), (r'^std::option::Option::is_some$', m_is_some), (r'^std::option::Option::ok_or$', m_ok_or),
    (r'^Result::ok$', m_result_ok), (r'^std::option::Option::map$', m_option_map),
    # --- decimal
    (r'^<rust_decimal::Decimal as FromStr>::from_str$', m_dec_from_str),
    (r'^<rust_decimal::Decimal as From<u128>>::from$', m_dec_from_u128),
    (r'^<rust_decimal::Decimal as From<(i32|u32|i64|u64)>>::from$', m_dec_from_int),
    (r'^<rust_decimal::Decimal as FromPrimitive>::from_u128$', m_dec_from_u128_opt),
    (r'^rust_decimal::arithmetic_impls::<impl rust_decimal::Decimal>::checked_mul$', m_dec_mul),
    (r'^rust_decimal::arithmetic_impls::<impl rust_decimal::Decimal>::checked_div$', m_dec_div),
    (r'^rust_decimal::arithmetic_impls::<impl rust_decimal::Decimal>::checked_sub$', m_dec_sub),
    (r'^rust_decimal::Decimal::fract$', m_dec_fract), (r'^<rust_decimal::Decimal as rust_decimal::prelude::Zero>::zero$', m_dec_zero),
    (r'^<rust_decimal::Decimal as (PartialEq|PartialOrd)>::(eq|ne|lt|le|gt|ge)$', m_dec_cmp_op),
    (r'^<rust_decimal::Decimal as Ord>::cmp$', m_dec_cmp),
    (r'^rust_decimal::Decimal::is_zero$', m_dec_is_zero), (r'^rust_decimal::Decimal::is_sign_negative$', m_dec_is_neg),
    (r'^<rust_decimal::Decimal as ToPrimitive>::to_u128$', m_dec_to_u128),
    (r'^rust_decimal::Decimal::round_dp_with_strategy$', m_dec_round),
    (r'^<rust_decimal::Decimal as ToString>::to_string$', m_dec_to_string),
    # --- Uint128 / u128
    (r'^Uint128::new$|^<u128 as Into<Uint128>>::into$|^<Uint128 as From<u128>>::from$', m_u_new), (r'^Uint128::zero$', m_u_zero), (r'^Uint128::is_zero$', m_u_is_zero),
    (r'^<Uint128 as Into<u128>>::into$|^<u128 as From<u128>>::from$|^<u128 as From<Uint128>>::from$|^Uint128::u128$', m_u_val),
    (r'^<&?(Uint128|u128|&u128) as (PartialOrd|PartialEq)>::(lt|gt|le|ge|eq|ne)$', m_u_cmp),
    (r'^<Uint128 as std::ops::Sub>::sub$', m_u_sub), (r'^<Uint128 as std::ops::Add>::add$', m_u_add),
    (r'^<Uint128 as SubAssign>::sub_assign$', m_u_sub_assign),
    (r'^Uint128::checked_sub$', m_u_checked_sub), (r'^Uint128::checked_add$', m_u_checked_add),
    (r'^<(Uint128|u128|u64|u32|usize|NonZero<u128>|NonZeroU128|std::num::NonZero<u128>) as ToString>::to_string$', m_u_to_string),
    (r'^core::num::<impl u128>::pow$', m_pow),
    # --- storage
    (r'^cw_storage_plus::Map::new$', m_map_new), (r'^Item::new$', m_item_new),
    (r'^cw_storage_plus::Map::load$', m_map_load), (r'^cw_storage_plus::Map::may_load$', m_map_may_load),
    (r'^cw_storage_plus::Map::save$', m_map_save), (r'^cw_storage_plus::Map::remove$', m_map_remove),
    (r'^cw_storage_plus::Map::update$', m_map_update), (r'^cw_storage_plus::Map::is_empty$', m_map_is_empty),
    (r'^cw_storage_plus::Map::range$', m_map_range),
    (r'^Item::load$', m_item_load), (r'^Item::save$', m_item_save),
    # --- queriers / api
    (r'^MarkerQuerier::new$', m_wrap1('MarkerQuerier')), (r'^AttributeQuerier::new$', m_wrap1('AttributeQuerier')),
    (r'^MarkerQuerier::marker$', m_marker_query), (r'^<MarkerAccount as TryFrom<.*>>::try_from$', m_marker_tryfrom),
    (r'^AttributeQuerier::attributes$', m_attributes_query),
    (r'^<dyn Api as Api>::addr_validate$', m_addr_validate),
    (r'^cosmwasm_std::StdError::generic_err$', m_generic_err),
    (r'^DepsMut::branch$', m_deps_branch),
    # --- uuid / semver
    (r'^uuid::parser::<impl uuid::Uuid>::parse_str$', m_uuid_parse),
    (r'^uuid::fmt::<impl uuid::Uuid>::hyphenated$', m_uuid_hyphenated), (r'^<Hyphenated as ToString>::to_string$', m_hyph_to_string),
    (r'^semver::Version::parse$', m_version_parse), (r'^VersionReq::parse$', m_versionreq_parse), (r'^VersionReq::matches$', m_versionreq_matches),
    (r'^<semver::Version as ToString>::to_string$', m_version_to_string), (r'^semver::Version::new$', m_version_new),
    (r'^Prerelease::is_empty$|^semver::Prerelease::is_empty$', m_prerelease_is_empty),
    # --- responses
    (r'^Response::new$', m_response_new), (r'^Response::add_message$', m_add_message), (r'^Response::add_attributes$', m_add_attributes),
    (r'^Response::add_attribute$', m_add_attribute), (r'^attr$', m_attr), (r'^coins$', m_coins), (r'^coin$', m_coin),
    (r'^serde_json::to_string$', m_to_json_string), (r'^to_binary$', m_to_binary), (r'^to_value$', m_to_value), (r'^Value::as_str$', m_value_as_str),
    (r'^<ContractError as ToString>::to_string$', m_contract_error_to_string),
    # --- iterators / collections
    (r'^<.* as IntoIterator>::into_iter$', m_into_iter), (r'^core::slice::<impl \[.*\]>::iter$', m_slice_iter),
    (r'^<.* as Iterator>::next$', m_iter_next), (r'^<.* as Iterator>::map$', m_iter_map), (r'^<.* as Iterator>::filter_map$', m_iter_filter_map), (r'^<.* as Iterator>::map_while$', m_iter_map_while),
    (r'^<.* as Iterator>::collect$', m_collect), (r'^<.* as Iterator>::any$', m_any), (r'^<.* as Iterator>::sum$', m_sum_uint128),
    (r'^(HashSet|BTreeSet)::contains$|^core::slice::<impl \[.*\]>::contains$', m_contains), (r'^(HashSet|BTreeSet)::is_subset$', m_is_subset),
    (r'^std::vec::Vec::new$', m_vec_new), (r'^std::vec::Vec::push$', m_vec_push), (r'^std::vec::Vec::len$', m_len),
    (r'^std::vec::Vec::is_empty$|^core::slice::<impl \[.*\]>::is_empty$', m_list_is_empty),
    (r'^std::vec::Vec::as_slice$', m_deref_val),
    (r'^Box::new_uninit$', m_box_uninit), (r'^std::boxed::box_assume_init_into_vec_unsafe$', m_box_into_vec),
    # --- strings
    (r'^std::string::String::is_empty$|^core::str::<impl str>::is_empty$', m_str_is_empty),
    (r'^<.* as Deref>::deref$', m_deref_val),
    (r'^std::string::String::as_str$|^std::string::String::as_bytes$|^Addr::as_str$', m_str_val),
    (r'^<(std::string::String|Addr|str|&str) as ToString>::to_string$|^Addr::into_string$|^<str as ToOwned>::to_owned$', m_str_val),
    (r'^<(&str|&std::string::String|std::string::String) as Into<std::string::String>>::into$|^<std::string::String as From<&str>>::from$|^<std::string::String as From<&std::string::String>>::from$', m_str_val),
    (r'^<(S|H|std::string::String|Addr|&str|&Addr) as Into<.*>>::into$', m_deref_val),
    (r'^format$', m_format), (r'^core::fmt::rt::Argument::new_debug$|^core::fmt::rt::Argument::new_display$|^Arguments::new$|^Arguments::new_const$', m_opaque),
    (r'^must_use$', m_identity),
    (r'^<&?bool as Not>::not$', m_not),
    # --- structural clone / eq for everything else (derived impls)
    (r'^<.* as PartialEq(<.*>)?>::(eq|ne)$', m_eq),
    (r'^<.* as (Clone|ToOwned)>::(clone|to_owned)$', m_clone),
]

MODELS = [(re.compile(p), f) for p, f in RAW_MODELS]


# ------------------------------------------------------------------ further rust_decimal / std operations (not used at the pinned commit,
# modelled so that plausible edits are decided rather than reported as unsupported)
def _round_with(ex, st, x, variant):
    fake = Adt('RoundingStrategy', variant, [])
    return m_dec_round(ex, st, [x, z3.IntVal(0), fake], 'round', None)


def m_dec_round_default(ex, st, a, c, m):
    return _round_with(ex, st, a[0], 'MidpointNearestEven')


def m_dec_round_dp(ex, st, a, c, m):
    return m_dec_round_dp_strategy(ex, st, [a[0], a[1], Adt('RoundingStrategy', 'MidpointNearestEven', [])], c, m)


def _round_int(n, unit, variant):
    """n rounded to a multiple of the positive python int `unit` (n >= 0), as a z3 term"""
    if unit == 1:
        return n
    if variant in ('MidpointAwayFromZero', 'RoundHalfUp'):
        q = (2 * n + unit) / (2 * unit)
    elif variant in ('MidpointTowardZero', 'RoundHalfDown'):
        q = (2 * n + unit - 1) / (2 * unit)
    elif variant in ('ToZero', 'RoundDown', 'ToNegativeInfinity'):
        q = n / unit
    elif variant in ('AwayFromZero', 'RoundUp', 'ToPositiveInfinity'):
        q = (n + unit - 1) / unit
    elif variant in ('MidpointNearestEven', 'BankersRounding'):
        up = (2 * n + unit) / (2 * unit)
        q = z3.If(z3.And((2 * n + unit) % (2 * unit) == 0, up % 2 == 1), up - 1, up)
    else:
        raise Unsupported('rounding strategy %s' % variant)
    return q * unit


def m_dec_round_dp_strategy(ex, st, a, c, m):
    """round_dp / round_dp_with_strategy to a (possibly symbolic) number of places, for values over a constant power-of-ten denominator"""
    x = dec(ex, a[0])
    n, d, inexact = x.fields[:3]
    dp = z3.simplify(a[1]) if isinstance(a[1], z3.ExprRef) else z3.IntVal(a[1])
    strat = a[2]
    if z3.is_int_value(dp) and dp.as_long() == 0:
        return m_dec_round(ex, st, a, c, m)
    if inexact or not z3.is_int_value(d):
        raise Unsupported('round_dp of an inexact / symbolic-denominator value')
    dv = d.as_long()
    k = len(str(dv)) - 1
    if 10 ** k != dv:
        raise Unsupported('round_dp over denominator %d' % dv)
    iv = ex.interval(dp)
    lo, hi = (max(iv[0], 0), min(iv[1], 28)) if iv is not None else (0, 28)
    t = n                                      # dp >= k: nothing to round
    for places in range(min(hi, k - 1), lo - 1, -1):
        t = z3.If(dp == places, _round_int(n, 10 ** (k - places), strat.variant), t)
    return [(n >= 0, Dec(t, d)), (n < 0, Opaque('OOB', 'rounding a negative value'))]


def m_dec_trunc(ex, st, a, c, m):
    return _round_with(ex, st, a[0], 'ToZero')


def m_dec_floor(ex, st, a, c, m):
    return _round_with(ex, st, a[0], 'ToNegativeInfinity')


def m_dec_ceil(ex, st, a, c, m):
    return _round_with(ex, st, a[0], 'ToPositiveInfinity')


def m_dec_add(ex, st, a, c, m):
    x, y = dec(ex, a[0]), dec(ex, a[1])
    if z3.eq(x.fields[1], y.fields[1]):
        r = Dec(x.fields[0] + y.fields[0], x.fields[1], bool(x.fields[2] or y.fields[2]), None, None, _smax(dscale(x), dscale(y)))
    else:
        r = Dec(x.fields[0] * y.fields[1] + y.fields[0] * x.fields[1], z3.simplify(x.fields[1] * y.fields[1]), bool(x.fields[2] or y.fields[2]), None, None, _smax(dscale(x), dscale(y)))
    return [(True, some(r) if 'checked' in c else r)]


def m_dec_sub_op(ex, st, a, c, m):
    return [(cnd, v.fields[0] if isinstance(v, Adt) and v.ty == 'Option' else v) for cnd, v in m_dec_sub(ex, st, a, c, m)]


def m_dec_mul_op(ex, st, a, c, m):
    return [(cnd, v.fields[0] if isinstance(v, Adt) and v.ty == 'Option' and v.variant == 'Some' else v) for cnd, v in m_dec_mul(ex, st, a, c, m)]


def m_dec_div_op(ex, st, a, c, m):
    out = []
    for cnd, v in m_dec_div(ex, st, a, c, m):
        if isinstance(v, Adt) and v.ty == 'Option':
            v = v.fields[0] if v.variant == 'Some' else PANIC('Decimal division by zero')
        out.append((cnd, v))
    return out


def m_dec_is_pos(ex, st, a, c, m):
    return [(True, dec(ex, a[0]).fields[0] >= 0)]


def m_dec_abs(ex, st, a, c, m):
    x = dec(ex, a[0])
    return [(True, Dec(z3.If(x.fields[0] >= 0, x.fields[0], -x.fields[0]), x.fields[1], x.fields[2]))]


def m_dec_minmax(ex, st, a, c, m):
    x, y = dec(ex, a[0]), dec(ex, a[1])
    l, r = x.fields[0] * y.fields[1], y.fields[0] * x.fields[1]
    lt = l < r
    pick_x = lt if c.endswith('min') else z3.Not(lt)
    if z3.eq(x.fields[1], y.fields[1]):
        return [(True, Dec(z3.If(pick_x, x.fields[0], y.fields[0]), x.fields[1], bool(x.fields[2] or y.fields[2])))]
    return [(pick_x, x), (z3.Not(pick_x), y)]


def m_u_checked_mul(ex, st, a, c, m):
    x, y = uval(ex, a[0]), uval(ex, a[1])
    return [(x * y < TWO128, ok(U(x * y))), (x * y >= TWO128, err(Adt('OverflowError', None, [])))]


def m_u_mul(ex, st, a, c, m):
    x, y = uval(ex, a[0]), uval(ex, a[1])
    return [(x * y < TWO128, U(x * y)), (x * y >= TWO128, PANIC('Uint128 mul overflow'))]


def m_u_saturating_sub(ex, st, a, c, m):
    x, y = uval(ex, a[0]), uval(ex, a[1])
    return [(True, U(z3.If(x >= y, x - y, 0)))]


def m_u_minmax(ex, st, a, c, m):
    x, y = uval(ex, a[0]), uval(ex, a[1])
    r = z3.If(x < y, x, y) if c.endswith('min') else z3.If(x < y, y, x)
    v = ex.deref(a[0])
    return [(True, U(r) if isinstance(v, Adt) else r)]


def m_u_add_assign(ex, st, a, c, m):
    r = a[0]
    x = ex.read(r.cell, r.path)
    xv, yv = x.fields[0], uval(ex, a[1])
    ex.write(r.cell, r.path, U(xv + yv))
    return [(xv + yv < TWO128, unit()), (xv + yv >= TWO128, PANIC('Uint128 add_assign overflow'))]


def m_unwrap_or(ex, st, a, c, m):
    r = a[0]
    return [(True, r.fields[0] if r.variant in ('Ok', 'Some') else a[1])]


def m_unwrap_or_default(ex, st, a, c, m):
    r = a[0]
    if r.variant in ('Ok', 'Some'):
        return [(True, r.fields[0])]
    if 'Uuid' in c:
        return [(True, Adt('Uuid', None, [lit('00000000-0000-0000-0000-000000000000')]))]
    if 'Uint128' in c:
        return [(True, U(0))]
    if 'String' in c:
        return [(True, lit(''))]
    if 'Vec' in c:
        return [(True, [])]
    raise Unsupported('unwrap_or_default for ' + c)


def m_is_none(ex, st, a, c, m):
    return [(True, z3.BoolVal(ex.deref(a[0]).variant == 'None'))]


def m_is_ok(ex, st, a, c, m):
    return [(True, z3.BoolVal(ex.deref(a[0]).variant == 'Ok'))]


def m_ok_or_else(ex, st, a, c, m):
    o = a[0]
    if o.variant == 'Some':
        return [(True, ok(o.fields[0]))]
    return [(cnd, err(v)) for cnd, v in _apply_fn(ex, st, a[1], c, [])]


def m_and_then(ex, st, a, c, m):
    o = a[0]
    if o.variant in ('None', 'Err'):
        return [(True, o)]
    return _apply_fn(ex, st, a[1], c, [o.fields[0]])


def m_result_map(ex, st, a, c, m):
    r = a[0]
    if r.variant == 'Err':
        return [(True, r)]
    return [(cnd, ok(v)) for cnd, v in _apply_fn(ex, st, a[1], c, [r.fields[0]])]


def m_unwrap_or_else(ex, st, a, c, m):
    r = a[0]
    if r.variant in ('Ok', 'Some'):
        return [(True, r.fields[0])]
    return _apply_fn(ex, st, a[1], c, [r.fields[0]] if r.variant == 'Err' else [])


def m_as_ref(ex, st, a, c, m):
    return [(True, ex.deref(a[0]))]


def m_all(ex, st, a, c, m):
    it = ex.deref(a[0])
    clo_text = ex.closure_text(c)
    terms = []
    for x in _iter_items(ex, st, it):
        r = ex.call_closure(st, clo_text, a[1], [x])
        if len(r) != 1:
            raise Unsupported('forking closure in all')
        terms.append(r[0][1])
    return [(True, z3.And(*terms) if terms else z3.BoolVal(True))]


def m_first_last(ex, st, a, c, m):
    l = ex.deref(a[0])
    if not l:
        return [(True, NONE())]
    return [(True, some(l[0] if c.endswith('first') else l[-1]))]


def m_vec_extend(ex, st, a, c, m):
    src = ex.deref(a[1])
    items = _iter_items(ex, st, src) if isinstance(src, Adt) else list(src)
    ex.deref(a[0]).extend(items)
    return [(True, unit())]


def m_iter_filter(ex, st, a, c, m):
    raise Unsupported('Iterator::filter over symbolic predicates')


RAW_MODELS[:0] = [
    (r'^rust_decimal::Decimal::round_dp_with_strategy$', m_dec_round_dp_strategy),
    (r'^rust_decimal::Decimal::round$', m_dec_round_default), (r'^rust_decimal::Decimal::round_dp$', m_dec_round_dp),
    (r'^rust_decimal::Decimal::trunc$', m_dec_trunc), (r'^rust_decimal::Decimal::floor$', m_dec_floor), (r'^rust_decimal::Decimal::ceil$', m_dec_ceil),
    (r'^rust_decimal::arithmetic_impls::<impl rust_decimal::Decimal>::checked_add$', m_dec_add),
    (r'^rust_decimal::arithmetic_impls::<impl (std::ops::)?Add(<.*>)? for rust_decimal::Decimal>::add$|^<rust_decimal::Decimal as (std::ops::)?Add(<.*>)?>::add$', m_dec_add),
    (r'^rust_decimal::arithmetic_impls::<impl (std::ops::)?Sub(<.*>)? for rust_decimal::Decimal>::sub$|^<rust_decimal::Decimal as (std::ops::)?Sub(<.*>)?>::sub$', m_dec_sub_op),
    (r'^rust_decimal::arithmetic_impls::<impl (std::ops::)?Mul(<.*>)? for rust_decimal::Decimal>::mul$|^<rust_decimal::Decimal as (std::ops::)?Mul(<.*>)?>::mul$', m_dec_mul_op),
    (r'^rust_decimal::arithmetic_impls::<impl (std::ops::)?Div(<.*>)? for rust_decimal::Decimal>::div$|^<rust_decimal::Decimal as (std::ops::)?Div(<.*>)?>::div$', m_dec_div_op),
    (r'^rust_decimal::Decimal::is_sign_positive$', m_dec_is_pos), (r'^rust_decimal::Decimal::abs$', m_dec_abs),
    (r'^rust_decimal::Decimal::(min|max)$|^<rust_decimal::Decimal as Ord>::(min|max)$', m_dec_minmax),
    (r'^Uint128::checked_mul$', m_u_checked_mul), (r'^<Uint128 as std::ops::Mul>::mul$', m_u_mul), (r'^Uint128::saturating_sub$', m_u_saturating_sub),
    (r'^<(Uint128|u128) as Ord>::(min|max)$|^std::cmp::(min|max)$|^Uint128::(min|max)$', m_u_minmax),
    (r'^<Uint128 as AddAssign>::add_assign$', m_u_add_assign),
    (r'^Result::unwrap_or$|^std::option::Option::unwrap_or$', m_unwrap_or),
    (r'^Result::unwrap_or_default$|^std::option::Option::unwrap_or_default$', m_unwrap_or_default),
    (r'^std::option::Option::is_none$', m_is_none), (r'^Result::is_ok$', m_is_ok),
    (r'^std::option::Option::ok_or_else$', m_ok_or_else), (r'^std::option::Option::and_then$|^Result::and_then$', m_and_then),
    (r'^Result::map$', m_result_map), (r'^Result::unwrap_or_else$|^std::option::Option::unwrap_or_else$', m_unwrap_or_else),
    (r'^Result::expect$|^std::option::Option::expect$', m_unwrap),
    (r'^std::option::Option::as_ref$|^Result::as_ref$|^std::option::Option::as_mut$|^std::option::Option::as_deref$', m_as_ref),
    (r'^<.* as Iterator>::all$', m_all), (r'^core::slice::<impl \[.*\]>::(first|last)$', m_first_last),
    (r'^std::vec::Vec::extend$|^<std::vec::Vec<.*> as Extend<.*>>::extend$', m_vec_extend),
]
MODELS = [(re.compile(p), f) for p, f in RAW_MODELS]


# ------------------------------------------------------------------ a few more std operations plausible edits reach for
def m_option_take(ex, st, a, c, m):
    r = a[0]
    v = ex.read(r.cell, r.path)
    ex.write(r.cell, r.path, NONE())
    return [(True, v)]


def m_mem_replace(ex, st, a, c, m):
    r = a[0]
    v = ex.read(r.cell, r.path)
    ex.write(r.cell, r.path, a[1])
    return [(True, v)]


def m_mem_take(ex, st, a, c, m):
    r = a[0]
    v = ex.read(r.cell, r.path)
    if isinstance(v, list):
        d = []
    elif isinstance(v, Adt) and v.ty == 'Uint128':
        d = U(0)
    elif isinstance(v, Adt) and v.ty == 'Option':
        d = NONE()
    elif isinstance(v, z3.ExprRef) and v.sort() == StrS:
        d = lit('')
    else:
        raise Unsupported('mem::take of %r' % (v,))
    ex.write(r.cell, r.path, d)
    return [(True, v)]


def m_iter_identity(ex, st, a, c, m):
    return [(True, a[0])]


def m_iter_find(ex, st, a, c, m):
    """first element satisfying a symbolic predicate: one outcome per position"""
    it = ex.deref(a[0])
    clo_text = ex.closure_text(c)
    items = _iter_items(ex, st, it)
    outs, none_before = [], []
    for x in items:
        r = ex.call_closure(st, clo_text, a[1], [Ref(Cell(x), [])])
        if len(r) != 1:
            raise Unsupported('forking closure in find')
        hit = r[0][1]
        outs.append((z3.And(*(none_before + [hit])), some(x)))
        none_before.append(z3.Not(hit))
    outs.append((z3.And(*none_before) if none_before else True, NONE()))
    return outs


def m_u128_checked(ex, st, a, c, m):
    x, y = uval(ex, a[0]), uval(ex, a[1])
    op = c.rsplit('::', 1)[1]
    if op == 'checked_add':
        return [(x + y < TWO128, some(x + y)), (x + y >= TWO128, NONE())]
    if op == 'checked_sub':
        return [(x >= y, some(x - y)), (x < y, NONE())]
    if op == 'checked_mul':
        return [(x * y < TWO128, some(x * y)), (x * y >= TWO128, NONE())]
    if op == 'saturating_sub':
        return [(True, z3.If(x >= y, x - y, 0))]
    if op == 'abs_diff':
        return [(True, z3.If(x >= y, x - y, y - x))]
    raise Unsupported(op)


def m_multiply_ratio(ex, st, a, c, m):
    x, n, d = uval(ex, a[0]), uval(ex, a[1]), uval(ex, a[2])
    q, r = ex.euclid(st, x * n, d)
    return [(d > 0, U(q)), (d == 0, PANIC('multiply_ratio by zero'))]


f_lower = z3.Function('to_lowercase', StrS, StrS)


def m_to_lowercase(ex, st, a, c, m):
    return [(True, f_lower(sval(ex, a[0])))]


def m_eq_ignore_case(ex, st, a, c, m):
    return [(True, f_lower(sval(ex, a[0])) == f_lower(sval(ex, a[1])))]


def m_bool_to_string(ex, st, a, c, m):
    return [(True, z3.If(ex.deref(a[0]), lit('true'), lit('false')))]


RAW_MODELS[:0] = [
    (r'^<bool as ToString>::to_string$', m_bool_to_string),
    (r'^std::option::Option::take$', m_option_take), (r'^std::mem::replace$', m_mem_replace), (r'^std::mem::take$', m_mem_take),
    (r'^<.* as Iterator>::(cloned|copied|by_ref|rev)$|^<.* as DoubleEndedIterator>::rev$', m_iter_identity),
    (r'^<.* as Iterator>::find$', m_iter_find),
    (r'^core::num::<impl u128>::(checked_add|checked_sub|checked_mul|saturating_sub|abs_diff)$', m_u128_checked),
    (r'^Uint128::multiply_ratio$', m_multiply_ratio),
    (r'^core::str::<impl str>::to_lowercase$|^std::string::String::to_lowercase$|^alloc::str::<impl str>::to_lowercase$', m_to_lowercase),
    (r'^core::str::<impl str>::eq_ignore_ascii_case$', m_eq_ignore_case),
]
MODELS = [(re.compile(p), f) for p, f in RAW_MODELS]


# ------------------------------------------------------------------ filter(...).count() with a symbolic predicate
def m_iter_filter_sym(ex, st, a, c, m):
    return [(True, Adt('FilterIter', None, [a[0], a[1], ex.closure_text(c)]))]


def m_iter_count(ex, st, a, c, m):
    it = ex.deref(a[0])
    if it.ty == 'FilterIter':
        src, clo, clo_text = it.fields
        tot = z3.IntVal(0)
        for x in _iter_items(ex, st, src):
            r = ex.call_closure(st, clo_text, clo, [Ref(Cell(x), [])])
            if len(r) != 1:
                raise Unsupported('forking closure in filter')
            tot = tot + z3.If(r[0][1], 1, 0)
        return [(True, z3.simplify(tot))]
    return [(True, z3.IntVal(len(_iter_items(ex, st, it))))]


RAW_MODELS[:0] = [
    (r'^<.* as Iterator>::filter$', m_iter_filter_sym), (r'^<.* as Iterator>::count$', m_iter_count),
]
MODELS = [(re.compile(p), f) for p, f in RAW_MODELS]


# ------------------------------------------------------------------ format!: single-placeholder Display templates are rendered, anything else stays opaque
def m_fmt_arg(kind):
    def f(ex, st, a, c, m):
        return [(True, Adt('FmtArg', None, [kind, ex.deref(a[0])]))]
    return f


def m_arguments_new(ex, st, a, c, m):
    tmpl = a[0]
    args = ex.deref(a[1]) if len(a) > 1 else []
    return [(True, Adt('FmtArguments', None, [tmpl, args if isinstance(args, list) else []]))]


def display_string(ex, v):
    """Display text of a value as a Str term, or None if not modelled"""
    v = ex.deref(v)
    if isinstance(v, z3.ExprRef):
        if v.sort() == StrS:
            return v
        if z3.is_int(v):
            return f_numstr(v)
        if z3.is_bool(v):
            return z3.If(v, lit('true'), lit('false'))
        return None
    if isinstance(v, Adt):
        if v.ty == 'Uint128':
            return f_numstr(v.fields[0])
        if v.ty == 'Addr':
            return v.fields[0]
        if v.ty == 'Decimal':
            return f_deccanon(v.fields[3]) if v.fields[3] is not None else f_decstr(v.fields[0], v.fields[1])
    return None


def m_format_render(ex, st, a, c, m):
    fa = a[0]
    if isinstance(fa, Adt) and fa.ty == 'FmtArguments':
        tmpl, args = fa.fields
        if isinstance(tmpl, Opaque) and tmpl.tag == 'bytes' and tmpl.a and tmpl.a[0] == 'b"\\xc0\\x00"' and len(args) == 1:
            arg = args[0]
            if isinstance(arg, Adt) and arg.ty == 'FmtArg' and arg.fields[0] == 'display':
                s_ = display_string(ex, arg.fields[1])
                if s_ is not None:
                    return [(True, s_)]
    return [(True, Opaque('Fmt', next(ex.fresh)))]


RAW_MODELS[:0] = [
    (r'^core::fmt::rt::Argument::new_display$', m_fmt_arg('display')), (r'^core::fmt::rt::Argument::new_debug$', m_fmt_arg('debug')),
    (r'^Arguments::new$|^Arguments::new_const$', m_arguments_new), (r'^format$', m_format_render),
]
MODELS = [(re.compile(p), f) for p, f in RAW_MODELS]



# ------------------------------------------------------------------ semver ordering, Option::filter, Iterator::take, Uuid nil
f_pre_lt = z3.Function('prerelease_lt', StrS, StrS, z3.BoolSort())


def m_version_cmp(ex, st, a, c, m):
    x, y = ex.deref(a[0]), ex.deref(a[1])
    xm, xi, xp, xpre = x.fields[0], x.fields[1], x.fields[2], x.fields[3].fields[0]
    ym, yi, yp, ypre = y.fields[0], y.fields[1], y.fields[2], y.fields[3].fields[0]
    lt3 = z3.Or(xm < ym, z3.And(xm == ym, xi < yi), z3.And(xm == ym, xi == yi, xp < yp))
    eq3 = z3.And(xm == ym, xi == yi, xp == yp)
    # same triple: a pre-release precedes the release; two pre-releases are ordered by their (unmodelled) identifiers
    xs, ys = x.fields[5], y.fields[5]
    both = f_pre_lt(xs, ys) if (xs is not None and ys is not None) else z3.Bool('prerelease_order!%d' % next(ex.fresh))
    lt = z3.Or(lt3, z3.And(eq3, xpre, z3.Not(ypre)), z3.And(eq3, xpre, ypre, both))
    eq = z3.And(eq3, xpre == ypre, z3.Implies(z3.And(xpre, ypre), (xs == ys) if (xs is not None and ys is not None) else z3.BoolVal(False)))
    op = c.rsplit('::', 1)[1]
    if op == 'cmp' or op == 'partial_cmp':
        outs = [(lt, Adt('Ordering', 'Less', [])), (eq, Adt('Ordering', 'Equal', [])), (z3.And(z3.Not(lt), z3.Not(eq)), Adt('Ordering', 'Greater', []))]
        return [(cnd, some(v) if op == 'partial_cmp' else v) for cnd, v in outs]
    return [(True, {'lt': lt, 'le': z3.Or(lt, eq), 'gt': z3.And(z3.Not(lt), z3.Not(eq)), 'ge': z3.Not(lt), 'eq': eq, 'ne': z3.Not(eq)}[op])]


def m_option_filter(ex, st, a, c, m):
    o = a[0]
    if o.variant == 'None':
        return [(True, o)]
    rs = _apply_fn(ex, st, a[1], c, [Ref(Cell(o.fields[0]), [])])
    out = []
    for cnd, keep in rs:
        k = keep if isinstance(keep, z3.ExprRef) else z3.BoolVal(bool(keep))
        out.append((k if cnd is True else z3.And(cnd, k), o))
        out.append((z3.Not(k) if cnd is True else z3.And(cnd, z3.Not(k)), NONE()))
    return out


def m_iter_take(ex, st, a, c, m):
    n = z3.simplify(a[1]) if isinstance(a[1], z3.ExprRef) else z3.IntVal(a[1])
    if not z3.is_int_value(n):
        raise Unsupported('take with a symbolic count')
    items = _iter_items(ex, st, ex.deref(a[0]))
    return [(True, Adt('Iter', None, [items[:n.as_long()], 0]))]


NIL_UUID = lit('00000000-0000-0000-0000-000000000000')


def m_uuid_is_nil(ex, st, a, c, m):
    return [(True, f_uuid_nil(ex.deref(a[0]).fields[0]))]


def m_uuid_unwrap_or_default(ex, st, a, c, m):
    r = a[0]
    if r.variant in ('Ok', 'Some'):
        return [(True, r.fields[0])]
    return [(True, Adt('Uuid', None, [NIL_UUID]))]


RAW_MODELS[:0] = [
    (r'^<semver::Version as (PartialOrd|Ord|PartialEq)>::(lt|le|gt|ge|eq|ne|cmp|partial_cmp)$', m_version_cmp),
    (r'^std::option::Option::filter$', m_option_filter), (r'^<.* as Iterator>::take$', m_iter_take),
    (r'^uuid::Uuid::is_nil$|^uuid::.*<impl uuid::Uuid>::is_nil$', m_uuid_is_nil),
    (r'^Result::<uuid::Uuid, .*>::unwrap_or_default$', m_uuid_unwrap_or_default),
]
MODELS = [(re.compile(p), f) for p, f in RAW_MODELS]



# ------------------------------------------------------------------ closures with symbolic branches inside iterator adapters: merge outcomes into one term
def _merge_scalar(ex, outs):
    """[(cond, value)] of Uint128 / Int / Bool values -> one value (if-then-else chain); None if not mergeable"""
    vals = []
    for cnd, v in outs:
        if isinstance(v, Opaque):
            return None
        if isinstance(v, Adt) and v.ty == 'Uint128':
            vals.append((cnd, v.fields[0], 'u'))
        elif isinstance(v, z3.ExprRef) and (z3.is_int(v) or z3.is_bool(v)):
            vals.append((cnd, v, 'z'))
        else:
            return None
    if not vals:
        return None
    t = vals[-1][1]
    for cnd, v, _ in reversed(vals[:-1]):
        t = z3.If(cnd if cnd is not True else z3.BoolVal(True), v, t)
    return U(t) if vals[0][2] == 'u' else t


_iter_items_plain = _iter_items


def _iter_items(ex, st, it):
    if it.ty == 'MapIter':
        src, clo, clo_text = it.fields
        out = []
        for x in _iter_items(ex, st, src):
            r = ex.call_closure(st, clo_text, clo, [x])
            if len(r) == 1 and not (isinstance(r[0][1], Opaque) and r[0][1].tag == 'PANIC'):
                out.append(r[0][1])
                continue
            mv = _merge_scalar(ex, r)
            if mv is None:
                raise Unsupported('forking/panicking closure in iterator map')
            out.append(mv)
        return out
    return _iter_items_plain(ex, st, it)


def m_hashset_len(ex, st, a, c, m):
    items = ex.deref(a[0]).fields[0]
    tot = z3.IntVal(0)
    for i, e in enumerate(items):
        first = z3.And(*[struct_eq(items[j], e) == False for j in range(i)]) if i else z3.BoolVal(True)
        tot = tot + z3.If(first, 1, 0)
    return [(True, z3.simplify(tot))]


RAW_MODELS[:0] = [
    (r'^(HashSet|BTreeSet)::len$', m_hashset_len),
    (r'^core::str::<impl str>::as_bytes$|^core::str::<impl str>::as_str$', m_str_val),
]
MODELS = [(re.compile(p), f) for p, f in RAW_MODELS]


def m_map_or(ex, st, a, c, m):
    o = a[0]
    if o.variant in ('None', 'Err'):
        return [(True, a[1])]
    return _apply_fn(ex, st, a[2], c, [o.fields[0]])


def m_map_or_else(ex, st, a, c, m):
    raise Unsupported('map_or_else (two closures)')


def m_is_some_and(ex, st, a, c, m):
    o = a[0]
    if o.variant in ('None', 'Err'):
        return [(True, z3.BoolVal(False))]
    return _apply_fn(ex, st, a[1], c, [o.fields[0]])


def m_option_or(ex, st, a, c, m):
    o = a[0]
    return [(True, o if o.variant == 'Some' else a[1])]


RAW_MODELS[:0] = [
    (r'^std::option::Option::map_or$|^Result::map_or$', m_map_or),
    (r'^std::option::Option::is_some_and$|^Result::is_ok_and$', m_is_some_and),
    (r'^std::option::Option::or$', m_option_or),
]
MODELS = [(re.compile(p), f) for p, f in RAW_MODELS]


# ------------------------------------------------------------------ proactive batch: APIs a maintainer of this contract is likely to reach for
def m_map_has(ex, st, a, c, m):
    ns, key = _map_ns(ex, a[0]), sval(ex, a[2])
    st.world.log.append(('load', ns, key, None))
    return [(True, z3.simplify(z3.Or(*[_entry_match(e, key) for e in st.world.maps[ns]]) if st.world.maps[ns] else z3.BoolVal(False)))]


def m_item_may_load(ex, st, a, c, m):
    ns = _item_ns(ex, a[0])
    v = st.world.items.get(ns)
    st.world.log.append(('load', ns, None, None))
    return [(True, ok(NONE() if v is None else some(clone(v, {}))))]


def m_item_exists(ex, st, a, c, m):
    return [(True, z3.BoolVal(st.world.items.get(_item_ns(ex, a[0])) is not None))]


def m_item_remove(ex, st, a, c, m):
    if st.world.readonly:
        raise Unsupported('write in read-only context')
    ns = _item_ns(ex, a[0])
    st.world.items[ns] = None
    st.world.log.append(('remove', ns, None, None))
    return [(True, unit())]


def m_u_checked_div(ex, st, a, c, m):
    x, y = uval(ex, a[0]), uval(ex, a[1])
    ys = z3.simplify(y) if isinstance(y, z3.ExprRef) else z3.IntVal(y)
    if z3.is_int_value(ys) and ys.as_long() != 0:
        q, r = x / ys, x % ys
    else:
        q, r = ex.euclid(st, x if isinstance(x, z3.ExprRef) else z3.IntVal(x), ys)
    res = q if 'div' in c.rsplit('::', 1)[1] else r
    return [(ys != 0, ok(U(res))), (ys == 0, err(Adt('DivideByZeroError', None, [])))]


def m_dec_is_integer(ex, st, a, c, m):
    x = dec(ex, a[0])
    n, d = x.fields[0], x.fields[1]
    if z3.is_int_value(d):
        return [(True, n % d == 0)]
    q, r = ex.euclid(st, n, d)
    return [(True, r == 0)]


def m_dec_const(n):
    def f(ex, st, a, c, m):
        return [(True, Dec(z3.IntVal(n), z3.IntVal(1)))]
    return f


def m_dec_normalize(ex, st, a, c, m):
    x = dec(ex, a[0])
    return [(True, Dec(x.fields[0], x.fields[1], x.fields[2], None, x.fields[4] if len(x.fields) > 4 else None))]


def m_addr_unchecked(ex, st, a, c, m):
    return [(True, Adt('Addr', None, [sval(ex, a[0])]))]


def m_add_messages(ex, st, a, c, m):
    outs = []
    for cnd, items in _iter_alts(ex, st, ex.deref(a[1])):
        def eff(st2, items=items):
            pass
        outs.append((cnd, items))
    if len(outs) == 1:
        a[0].fields[0].extend(outs[0][1])
        return [(True if outs[0][0] is True else outs[0][0], a[0])]
    res = []
    for cnd, items in outs:
        r = clone(a[0], {})
        r.fields[0].extend(items)
        res.append((cnd, r))
    return res


def m_iter_position(ex, st, a, c, m):
    it = ex.deref(a[0])
    clo_text = ex.closure_text(c)
    items = _iter_items(ex, st, it)
    outs, none_before = [], []
    for i, x in enumerate(items):
        r = ex.call_closure(st, clo_text, a[1], [x])
        if len(r) != 1:
            raise Unsupported('forking closure in position')
        hit = r[0][1]
        outs.append((z3.And(*(none_before + [hit])), some(z3.IntVal(i))))
        none_before.append(z3.Not(hit))
    outs.append((z3.And(*none_before) if none_before else True, NONE()))
    return outs


def m_iter_enumerate(ex, st, a, c, m):
    items = _iter_items(ex, st, ex.deref(a[0]))
    return [(True, Adt('Iter', None, [[Adt('tuple', None, [z3.IntVal(i), x]) for i, x in enumerate(items)], 0]))]


def m_iter_skip(ex, st, a, c, m):
    n = z3.simplify(a[1]) if isinstance(a[1], z3.ExprRef) else z3.IntVal(a[1])
    if not z3.is_int_value(n):
        raise Unsupported('skip with a symbolic count')
    return [(True, Adt('Iter', None, [_iter_items(ex, st, ex.deref(a[0]))[n.as_long():], 0]))]


def m_iter_last(ex, st, a, c, m):
    items = _iter_items(ex, st, ex.deref(a[0]))
    return [(True, some(items[-1]) if items else NONE())]


f_str_contains = z3.Function('str_contains', StrS, StrS, z3.BoolSort())
f_str_starts = z3.Function('str_starts_with', StrS, StrS, z3.BoolSort())
f_str_trim = z3.Function('str_trim', StrS, StrS)
f_parse_u128_ok = z3.Function('parse_u128_ok', StrS, z3.BoolSort())
f_parse_u128 = z3.Function('parse_u128', StrS, z3.IntSort())


def m_str_contains(ex, st, a, c, m):
    return [(True, f_str_contains(sval(ex, a[0]), sval(ex, a[1])))]


def m_str_starts(ex, st, a, c, m):
    return [(True, f_str_starts(sval(ex, a[0]), sval(ex, a[1])))]


def m_str_trim(ex, st, a, c, m):
    return [(True, f_str_trim(sval(ex, a[0])))]


def m_has_coins(ex, st, a, c, m):
    coins, want = ex.deref(a[0]), ex.deref(a[1])
    return [(True, z3.Or(*[z3.And(cn.fields[0] == want.fields[0], uval(ex, cn.fields[1]) >= uval(ex, want.fields[1])) for cn in coins]) if coins else z3.BoolVal(False))]


RAW_MODELS[:0] = [
    (r'^cw_storage_plus::Map::has$', m_map_has), (r'^Item::may_load$', m_item_may_load), (r'^Item::exists$', m_item_exists), (r'^Item::remove$', m_item_remove),
    (r'^Uint128::checked_div$|^Uint128::checked_rem$', m_u_checked_div),
    (r'^rust_decimal::Decimal::is_integer$', m_dec_is_integer), (r'^rust_decimal::Decimal::normalize$', m_dec_normalize),
    (r'^Addr::unchecked$', m_addr_unchecked), (r'^Response::add_messages$', m_add_messages),
    (r'^<.* as Iterator>::position$', m_iter_position), (r'^<.* as Iterator>::enumerate$', m_iter_enumerate),
    (r'^<.* as Iterator>::skip$', m_iter_skip), (r'^<.* as Iterator>::last$', m_iter_last),
    (r'^core::str::<impl str>::contains$|^std::string::String::contains$', m_str_contains),
    (r'^core::str::<impl str>::starts_with$', m_str_starts), (r'^core::str::<impl str>::trim$', m_str_trim),
    (r'^has_coins$', m_has_coins),
]
MODELS = [(re.compile(p), f) for p, f in RAW_MODELS]


# ------------------------------------------------------------------ iterator adapters whose closures fork (addr_validate, parse, ...): guarded alternatives
ITER_ALT_CAP = 96


def _closure_outs(ex, st, clo_text, clo, args):
    if (isinstance(clo, Opaque) and clo.tag == 'fn') or clo_text is None:
        r = apply_callable(ex, st, clo, clo_text or '', args)
    else:
        r = ex.call_closure(st, clo_text, clo, args)
    return [(True if c is True else c, v) for c, v in r]


def _iter_alts(ex, st, it):
    """-> [(cond, [items])]: every way the (possibly forking) closures of the adapter chain can turn out"""
    if isinstance(it, list):
        return [(True, list(it))]
    if it.ty == 'Option':
        return [(True, [it.fields[0]] if it.variant == 'Some' else [])]
    if it.ty == 'Result':
        return [(True, [it.fields[0]] if it.variant == 'Ok' else [])]
    if it.ty == 'Iter':
        return [(True, list(it.fields[0][it.fields[1]:]))]
    if it.ty in ('MapIter', 'FilterMapIter', 'FlatMapIter', 'MapWhileIter'):
        src, clo, clo_text = it.fields
        out = []
        for c0, items in _iter_alts(ex, st, src):
            alts = [(c0, [], False)]           # (cond, produced, stopped)
            for x in items:
                nxt = []
                for c1, got, stopped in alts:
                    if stopped:
                        nxt.append((c1, got, True))
                        continue
                    for c2, v in _closure_outs(ex, st, clo_text, clo, [x]):
                        if isinstance(v, Opaque) and v.tag in ('PANIC', 'OOB'):
                            raise Unsupported('panicking closure inside an iterator adapter')
                        cc = c1 if c2 is True else (c2 if c1 is True else z3.And(c1, c2))
                        if it.ty == 'MapIter':
                            nxt.append((cc, got + [v], False))
                        elif it.ty == 'FilterMapIter':
                            nxt.append((cc, got + ([v.fields[0]] if v.variant == 'Some' else []), False))
                        elif it.ty == 'FlatMapIter':
                            if isinstance(v, list):
                                nxt.append((cc, got + list(v), False))
                            elif isinstance(v, Adt) and v.ty in ('Option', 'Result'):
                                nxt.append((cc, got + ([v.fields[0]] if v.variant in ('Some', 'Ok') else []), False))
                            else:
                                raise Unsupported('flat_map over %r' % (v,))
                        else:   # MapWhileIter
                            nxt.append((cc, got + [v.fields[0]], False) if v.variant == 'Some' else (cc, got, True))
                if len(nxt) > ITER_ALT_CAP:
                    raise Unsupported('too many closure outcomes inside an iterator adapter')
                alts = nxt
            out += [(c, got) for c, got, _ in alts]
        return out
    if it.ty == 'ChainIter':
        out = []
        for c0, xs in _iter_alts(ex, st, it.fields[0]):
            for c1, ys in _iter_alts(ex, st, it.fields[1]):
                out.append((c0 if c1 is True else (c1 if c0 is True else z3.And(c0, c1)), xs + ys))
        return out
    if it.ty == 'FlattenIter':
        out = []
        for c0, xs in _iter_alts(ex, st, it.fields[0]):
            alts = [(c0, [])]
            for x in xs:
                x = ex.deref(x)
                nxt = []
                for c1, got in alts:
                    for c2, ys in _iter_alts(ex, st, x):
                        nxt.append((c1 if c2 is True else (c2 if c1 is True else z3.And(c1, c2)), got + ys))
                alts = nxt
            out += alts
        return out
    if it.ty == 'FilterIter':
        src, clo, clo_text = it.fields
        out = []
        for c0, items in _iter_alts(ex, st, src):
            alts = [(c0, [])]
            for x in items:
                r = ex.call_closure(st, clo_text, clo, [Ref(Cell(x), [])])
                nxt = []
                for c1, got in alts:
                    for c2, hit in r:
                        if isinstance(hit, Opaque):
                            raise Unsupported('panicking closure inside filter')
                        cc = c1 if c2 is True else (c2 if c1 is True else z3.And(c1, c2))
                        hs = z3.simplify(hit)
                        if z3.is_true(hs):
                            nxt.append((cc, got + [x]))
                        elif z3.is_false(hs):
                            nxt.append((cc, got))
                        else:
                            nxt.append((hs if cc is True else z3.And(cc, hs), got + [x]))
                            nxt.append((z3.Not(hs) if cc is True else z3.And(cc, z3.Not(hs)), got))
                if len(nxt) > ITER_ALT_CAP:
                    raise Unsupported('too many closure outcomes inside an iterator adapter')
                alts = nxt
            out += alts
        return out
    raise Unsupported('iterator ' + it.ty)


def _iter_items(ex, st, it):          # single-alternative view used by the non-forking consumers
    alts = _iter_alts(ex, st, it)
    if len(alts) == 1:
        return alts[0][1]
    # merge scalar items position-wise when every alternative has the same length
    n = {len(items) for _, items in alts}
    if len(n) == 1:
        merged = []
        for k in range(n.pop()):
            mv = _merge_scalar(ex, [(c, items[k]) for c, items in alts])
            if mv is None:
                raise Unsupported('forking closure in an iterator adapter (non-scalar items)')
            merged.append(mv)
        return merged
    raise Unsupported('forking closure in an iterator adapter (varying length)')


def m_iter_flat_map(ex, st, a, c, m):
    return [(True, Adt('FlatMapIter', None, [a[0], a[1], ex.closure_text(c)]))]


def m_collect(ex, st, a, c, m):
    tail = c.split('collect', 1)[-1]
    into_result = bool(re.search(r'^::<(std::result::)?(Std)?Result<|^::<Result<', tail))
    into_option = bool(re.search(r'^::<(std::option::)?Option<', tail))
    into_set = 'HashSet' in tail or 'BTreeSet' in tail
    outs = []
    for cnd, items in _iter_alts(ex, st, a[0]):
        if into_result or into_option:
            good, bad = ('Ok', 'Err') if into_result else ('Some', 'None')
            vals, failed = [], None
            for v in items:
                if v.variant == bad:
                    failed = v
                    break
                vals.append(v.fields[0])
            wrap = (lambda x: Adt('HashSet', None, [x])) if into_set else (lambda x: x)
            if failed is not None:
                outs.append((cnd, err(failed.fields[0]) if into_result else NONE()))
            else:
                outs.append((cnd, ok(wrap(vals)) if into_result else some(wrap(vals))))
        else:
            outs.append((cnd, Adt('HashSet', None, [items]) if into_set else items))
    return outs


def m_option_zip(ex, st, a, c, m):
    x, y = a[0], a[1]
    if x.variant == 'Some' and y.variant == 'Some':
        return [(True, some(Adt('tuple', None, [x.fields[0], y.fields[0]])))]
    return [(True, NONE())]


f_strlen = z3.Function('strlen', StrS, z3.IntSort())


def m_str_len(ex, st, a, c, m):
    s_ = sval(ex, a[0])
    fact = z3.And(f_strlen(s_) >= 0, (f_strlen(s_) == 0) == (s_ == EMPTY))
    if not any(z3.eq(fact, p_) for p_ in st.pc):
        st.pc.append(fact)
    if z3.is_app(s_) and s_.decl().name() == 'uuid_hyph':
        st.pc.append(f_strlen(s_) == 36)
    else:
        # texts Uuid::parse_str accepts: simple (32), hyphenated (36), braced (38), urn (45); the canonical text is hyphenated
        uf = z3.And(z3.Implies(f_uuid_ok(s_), z3.Or(f_strlen(s_) == 32, f_strlen(s_) == 36, f_strlen(s_) == 38, f_strlen(s_) == 45)),
                    z3.Implies(z3.And(f_uuid_ok(s_), f_uuid_hyph(s_) == s_), f_strlen(s_) == 36))
        if not any(z3.eq(uf, p_) for p_ in st.pc):
            st.pc.append(uf)
    return [(True, f_strlen(s_))]


def m_dec_saturating_mul(ex, st, a, c, m):
    outs = []
    for cnd, v in m_dec_mul(ex, st, a, c, m):
        outs.append((cnd, v.fields[0] if isinstance(v, Adt) and v.ty == 'Option' and v.variant == 'Some' else v))
    return outs


def m_unsigned_abs(ex, st, a, c, m):
    v = a[0]
    return [(True, z3.If(v >= 0, v, -v))]


def m_vec_extend2(ex, st, a, c, m):
    src = ex.deref(a[1])
    items = _iter_items(ex, st, src) if isinstance(src, Adt) else list(src)
    ex.deref(a[0]).extend(items)
    return [(True, unit())]


RAW_MODELS[:0] = [
    (r'^<.* as Iterator>::flat_map$', m_iter_flat_map), (r'^<.* as Iterator>::collect$', m_collect),
    (r'^std::option::Option::zip$', m_option_zip),
    (r'^std::string::String::len$|^core::str::<impl str>::len$', m_str_len),
    (r'^rust_decimal::arithmetic_impls::<impl rust_decimal::Decimal>::saturating_mul$', m_dec_saturating_mul),
    (r'^core::num::<impl i128>::unsigned_abs$|^core::num::<impl i64>::unsigned_abs$', m_unsigned_abs),
    (r'^std::vec::Vec::extend$|^<std::vec::Vec<.*> as Extend<.*>>::extend$', m_vec_extend2),
]
MODELS = [(re.compile(p), f) for p, f in RAW_MODELS]



# ------------------------------------------------------------------ rust_decimal's own representation: scale / mantissa / rescale
def _pow10_ite(e, lo, hi):
    t = z3.IntVal(10 ** hi)
    for k in range(hi - 1, lo - 1, -1):
        t = z3.If(e == k, z3.IntVal(10 ** k), t)
    return t


def _need_scale_facts(ex, st, sc):
    """the path is about to depend on the written scale of the decimal texts inside `sc`: assert their consistency facts"""
    seen = []

    def walk(t):
        if z3.is_app(t):
            if t.decl().name() == 'dec_scale':
                seen.append(t.arg(0))
            for ch in t.children():
                walk(ch)
    walk(sc)
    for s_ in seen:
        hit = getattr(ex, 'scale_facts', {}).get(s_.get_id())
        if hit is not None and z3.eq(hit[0], s_) and not any(z3.eq(hit[1], p_) for p_ in st.pc):
            st.pc.append(hit[1])


def m_dec_scale(ex, st, a, c, m):
    sc = dscale(dec(ex, a[0]))
    if sc is None:
        raise Unsupported('scale() of a value whose rust_decimal scale is not tracked')
    _need_scale_facts(ex, st, sc)
    return [(True, sc)]


def m_dec_mantissa(ex, st, a, c, m):
    x = dec(ex, a[0])
    sc = dscale(x)
    if sc is None or not z3.is_int_value(x.fields[1]):
        raise Unsupported('mantissa() of a value whose rust_decimal scale is not tracked')
    _need_scale_facts(ex, st, sc)
    iv = ex.interval(sc)
    lo, hi = (max(iv[0], 0), min(iv[1], 28)) if iv is not None else (0, 28)
    return [(True, z3.simplify(x.fields[0] * _pow10_ite(sc, lo, hi) / x.fields[1]))]


def m_dec_rescale(ex, st, a, c, m):
    r = a[0]
    x = ex.read(r.cell, r.path)
    new = z3.simplify(a[1]) if isinstance(a[1], z3.ExprRef) else z3.IntVal(a[1])
    n, d = x.fields[0], x.fields[1]
    sc = dscale(x)
    if sc is None or not z3.is_int_value(d) or x.fields[2]:
        raise Unsupported('rescale of a value whose rust_decimal scale is not tracked')
    _need_scale_facts(ex, st, sc)
    k = len(str(d.as_long())) - 1
    iv = ex.interval(new)
    lo, hi = (max(iv[0], 0), min(iv[1], 28)) if iv is not None else (0, 28)
    t = n                                        # new scale >= current scale (or >= k): value unchanged
    for places in range(min(hi, k - 1), lo - 1, -1):
        t = z3.If(z3.And(new == places, new < sc), _round_int(n, 10 ** (k - places), 'MidpointAwayFromZero'), t)
    ex.write(r.cell, r.path, Dec(z3.simplify(t), d, False, None, None, new))
    return [(n >= 0, unit()), (n < 0, Opaque('OOB', 'rescale of a negative value'))]


def m_dec_new(ex, st, a, c, m):
    num, sc = a[0], z3.simplify(a[1]) if isinstance(a[1], z3.ExprRef) else z3.IntVal(a[1])
    if not z3.is_int_value(sc):
        raise Unsupported('Decimal::new with a symbolic scale')
    return [(True, Dec(num, z3.IntVal(10 ** sc.as_long()), False, None, None, sc))]


RAW_MODELS[:0] = [
    (r'^rust_decimal::Decimal::scale$', m_dec_scale), (r'^rust_decimal::Decimal::mantissa$', m_dec_mantissa),
    (r'^rust_decimal::Decimal::rescale$', m_dec_rescale), (r'^rust_decimal::Decimal::new$', m_dec_new),
]
MODELS = [(re.compile(p), f) for p, f in RAW_MODELS]


# ------------------------------------------------------------------ Default of library types (derived Default of crate types runs its real body)
def m_default(ex, st, a, c, m):
    t = m.group(1)
    if t == 'Uint128':
        return [(True, U(z3.IntVal(0)))]
    if t in ('String', 'std::string::String'):
        return [(True, EMPTY)]
    if t == 'bool':
        return [(True, z3.BoolVal(False))]
    if re.match(r'^[ui](8|16|32|64|128|size)$', t):
        return [(True, z3.IntVal(0))]
    if t.startswith('Option') or t.startswith('std::option::Option'):
        return [(True, NONE())]
    if t.startswith('Vec') or t.startswith('std::vec::Vec'):
        return [(True, [])]
    if t in ('Decimal', 'rust_decimal::Decimal'):
        return [(True, Dec(z3.IntVal(0), z3.IntVal(1)))]
    raise Unsupported('Default of ' + t)


RAW_MODELS[:0] = [(r'^<(Uint128|String|std::string::String|bool|[ui](?:8|16|32|64|128|size)|(?:std::option::)?Option<.*>|(?:std::vec::)?Vec<.*>|(?:rust_decimal::)?Decimal) as (?:std::default::)?Default>::default$', m_default)]
MODELS = [(re.compile(p), f) for p, f in RAW_MODELS]


# ------------------------------------------------------------------ round-5 batch: BTreeMap, iter_mut, or_else
def _key_term(ex, k):
    k = ex.deref(k)
    if isinstance(k, Adt) and k.ty in ('Addr', 'Uint128'):
        return k.fields[0]
    if isinstance(k, z3.ExprRef):
        return k
    raise Unsupported('ordered-map key %r' % (k,))


def _key_lt(a_, b_):
    return f_key_rank(a_) < f_key_rank(b_) if a_.sort() == StrS else a_ < b_


def m_btree_new(ex, st, a, c, m):
    return [(True, Adt('BTreeMap', None, [[]]))]          # entries [key, value, present]: key coincidences stay symbolic (no fork on insert)


def _scalar(v):
    return isinstance(v, z3.ExprRef) or (isinstance(v, Adt) and v.ty == 'Uint128')


def _ite_val(cnd, x, y):
    if isinstance(x, Adt) and x.ty == 'Uint128':
        return U(z3.If(cnd, x.fields[0], y.fields[0]))
    return z3.If(cnd, x, y)


def m_btree_insert(ex, st, a, c, m):
    ents = ex.deref(a[0]).fields[0]
    key, val = a[1], a[2]
    kt = _key_term(ex, key)
    hits = []
    for e in ents:
        cnd = z3.simplify(z3.And(e[2], kt == _key_term(ex, e[0])))
        if z3.is_false(cnd):
            continue
        if z3.is_true(cnd):
            old = e[1]
            e[1] = val
            return [(True, some(old))]
        if not (_scalar(val) and _scalar(e[1])):
            raise Unsupported('ordered map with structured values and possibly coinciding symbolic keys')
        hits.append((cnd, e))
    olds = [(cnd, e[1]) for cnd, e in hits]
    for cnd, e in hits:
        e[1] = _ite_val(cnd, val, e[1])
    anyhit = z3.simplify(z3.Or(*[cnd for cnd, _ in hits])) if hits else z3.BoolVal(False)
    ents.append([key, val, z3.simplify(z3.Not(anyhit))])
    if len(ents) > 4:
        raise Unsupported('ordered map with more than 4 entries')
    return [(cnd, some(o)) for cnd, o in olds] + [(z3.Not(anyhit), NONE())]


def _btree_sorted(ex, ents, build):
    import itertools as _it
    if len(ents) > 4:
        raise Unsupported('ordered map with more than 4 entries')
    outs = []
    n = len(ents)
    for mask in range(1 << n):
        live = [i for i in range(n) if mask >> i & 1]
        pres = [ents[i][2] if i in live else z3.Not(ents[i][2]) for i in range(n)]
        pc_ = z3.simplify(z3.And(*pres)) if pres else z3.BoolVal(True)
        if z3.is_false(pc_):
            continue
        keys = {i: _key_term(ex, ents[i][0]) for i in live}
        for perm in _it.permutations(live):
            conds = [_key_lt(keys[perm[i]], keys[perm[i + 1]]) for i in range(len(perm) - 1)]
            cnd = z3.simplify(z3.And(pc_, *conds))
            if z3.is_false(cnd):
                continue
            outs.append((True if z3.is_true(cnd) else cnd, Adt('Iter', None, [[build(ents[j][0], ents[j][1]) for j in perm], 0])))
    return outs


def m_btree_into_iter(ex, st, a, c, m):
    return _btree_sorted(ex, ex.deref(a[0]).fields[0], lambda k, v: Adt('tuple', None, [k, v]))


def m_btree_keys(ex, st, a, c, m):
    return _btree_sorted(ex, ex.deref(a[0]).fields[0], lambda k, v: k)


def m_btree_values(ex, st, a, c, m):
    return _btree_sorted(ex, ex.deref(a[0]).fields[0], lambda k, v: v)


def m_btree_len(ex, st, a, c, m):
    return [(True, z3.simplify(z3.Sum(*[z3.If(e[2], 1, 0) for e in ex.deref(a[0]).fields[0]])) if ex.deref(a[0]).fields[0] else z3.IntVal(0))]


def m_btree_is_empty(ex, st, a, c, m):
    return [(True, z3.simplify(z3.Not(z3.Or(*[e[2] for e in ex.deref(a[0]).fields[0]]))) if ex.deref(a[0]).fields[0] else z3.BoolVal(True))]


def m_btree_get(ex, st, a, c, m):
    ents = ex.deref(a[0]).fields[0]
    kt = _key_term(ex, a[1])
    outs, neg = [], []
    for e in ents:
        cnd = z3.And(e[2], kt == _key_term(ex, e[0]))
        outs.append((z3.And(*(neg + [cnd])), some(e[1])))
        neg.append(z3.Not(cnd))
    outs.append((z3.And(*neg) if neg else True, NONE()))
    return outs


def m_btree_contains(ex, st, a, c, m):
    ents = ex.deref(a[0]).fields[0]
    kt = _key_term(ex, a[1])
    return [(True, z3.simplify(z3.Or(*[z3.And(e[2], kt == _key_term(ex, e[0])) for e in ents])) if ents else z3.BoolVal(False))]


def m_result_or_else(ex, st, a, c, m):
    r = a[0]
    if r.variant in ('Ok', 'Some'):
        return [(True, r)]
    return _apply_fn(ex, st, a[1], c, [r.fields[0]] if r.variant == 'Err' else [])


def m_result_or(ex, st, a, c, m):
    r = a[0]
    return [(True, r if r.variant == 'Ok' else a[1])]


def m_deref_mut(ex, st, a, c, m):
    return [(True, a[0] if isinstance(a[0], Ref) else ex.deref(a[0]))]     # &mut Vec<T> -> &mut [T]: the same place


def m_slice_iter_mut(ex, st, a, c, m):
    r = a[0]
    while isinstance(r, Ref) and isinstance(ex.read(r.cell, r.path), Ref):
        r = ex.read(r.cell, r.path)
    if isinstance(r, Ref) and isinstance(ex.read(r.cell, r.path), list):
        n = len(ex.read(r.cell, r.path))
        return [(True, Adt('Iter', None, [[Ref(r.cell, list(r.path) + [('idx', i)]) for i in range(n)], 0]))]
    return [(True, Adt('Iter', None, [list(ex.deref(a[0])), 0]))]


RAW_MODELS[:0] = [
    (r'^(?:std::collections::)?BTreeMap::new$|^<(?:std::collections::)?BTreeMap<.*> as Default>::default$', m_btree_new),
    (r'^(?:std::collections::)?BTreeMap::insert$', m_btree_insert),
    (r'^<&?(?:mut )?(?:std::collections::)?BTreeMap<.*> as IntoIterator>::into_iter$|^(?:std::collections::)?BTreeMap::(iter|into_iter|iter_mut)$', m_btree_into_iter),
    (r'^(?:std::collections::)?BTreeMap::(keys|into_keys)$', m_btree_keys), (r'^(?:std::collections::)?BTreeMap::(values|into_values)$', m_btree_values),
    (r'^(?:std::collections::)?BTreeMap::len$', m_btree_len), (r'^(?:std::collections::)?BTreeMap::is_empty$', m_btree_is_empty),
    (r'^(?:std::collections::)?BTreeMap::get$', m_btree_get), (r'^(?:std::collections::)?BTreeMap::contains_key$', m_btree_contains),
    (r'^Result::or_else$|^std::option::Option::or_else$', m_result_or_else), (r'^Result::or$', m_result_or),
    (r'^core::slice::<impl \[.*\]>::iter_mut$', m_slice_iter_mut),
    (r'^<.* as DerefMut>::deref_mut$', m_deref_mut),
]
MODELS = [(re.compile(p), f) for p, f in RAW_MODELS]


# ------------------------------------------------------------------ benign-set-3 batch: once / chain / flatten / then
def m_iter_once(ex, st, a, c, m):
    return [(True, Adt('Iter', None, [[a[0]], 0]))]


def m_iter_empty(ex, st, a, c, m):
    return [(True, Adt('Iter', None, [[], 0]))]


def m_iter_chain(ex, st, a, c, m):
    return [(True, Adt('ChainIter', None, [ex.deref(a[0]), ex.deref(a[1])]))]


def m_iter_flatten(ex, st, a, c, m):
    return [(True, Adt('FlattenIter', None, [ex.deref(a[0])]))]


def m_option_flatten(ex, st, a, c, m):
    o = a[0]
    return [(True, o.fields[0] if o.variant == 'Some' else NONE())]


def m_bool_then(ex, st, a, c, m):
    b = ex.deref(a[0])
    b = z3.simplify(b) if isinstance(b, z3.ExprRef) else z3.BoolVal(bool(b))
    if c.split('::then')[-1].startswith('_some') or '::then_some' in c:
        return [(b, some(a[1])), (z3.Not(b), NONE())]
    outs = [(z3.Not(b), NONE())] if not z3.is_true(b) else []
    if not z3.is_false(b):
        saved = st.pc
        st.pc = st.pc + [b]
        try:
            rs = _apply_fn(ex, st, a[1], c, [])
        finally:
            st.pc = saved
        for c2, v in rs:
            outs.append((b if c2 is True else z3.And(b, c2), v if isinstance(v, Opaque) else some(v)))
    return outs


def m_iter_next_any(ex, st, a, c, m):
    """`next` on an adapter chain: materialise it in place first (single alternative only)"""
    it = ex.deref(a[0])
    if it.ty != 'Iter':
        items = _iter_items(ex, st, it)
        it.ty, it.fields = 'Iter', [items, 0]
    return m_iter_next(ex, st, a, c, m)


RAW_MODELS[:0] = [
    (r'^std::iter::once$|^core::iter::once$', m_iter_once), (r'^std::iter::empty$|^core::iter::empty$', m_iter_empty),
    (r'^<.* as Iterator>::chain$', m_iter_chain), (r'^<.* as Iterator>::flatten$', m_iter_flatten),
    (r'^std::option::Option::flatten$', m_option_flatten),
    (r'^core::bool::<impl bool>::then(_some)?$|^bool::then(_some)?$', m_bool_then),
    (r'^<.* as Iterator>::next$', m_iter_next_any),
]
MODELS = [(re.compile(p), f) for p, f in RAW_MODELS]


# ------------------------------------------------------------------ applying callables given as values (fn items, closures) by their own identity
def _closure_texts(callee):
    return re.findall(r'(\{closure@[^}]*\})', callee)


def apply_callable(ex, st, f, callee, args, which=None):
    """-> [(cond, value)] for a fn item / closure VALUE; `which` selects among several closure types named in the callee (0-based)"""
    if isinstance(f, Opaque) and f.tag == 'fn':
        ty, var = ex.split_variant(f.a[0])
        if var is not None:
            return [(True, Adt(ty, var, list(args)))]
        name = ex_strip(f.a[0])
        fi = ex.from_call(name)
        if fi is not None:
            return ex.call_closure_body(st, fi[0], list(args), fi[1])
        tgt = ex.lookup_local(name)
        if tgt is not None:
            return ex.call_closure_body(st, tgt, list(args))
        for pat, fn in ex.models:
            mm = pat.match(name)
            if mm:
                outs = fn(ex, st, list(args), f.a[0], mm)
                if any(len(o) == 3 and o[2] is not None for o in outs):
                    raise Unsupported('effectful function passed as a value')
                return [(o[0], o[1]) for o in outs]
        raise Unsupported('fn item ' + f.a[0])
    if isinstance(f, Adt) and isinstance(f.ty, str) and f.ty.startswith('{closure@') and f.ty in ex.closures:
        return ex.call_closure(st, f.ty, f, list(args))
    texts = _closure_texts(callee)
    if not texts:
        raise Unsupported('no closure in ' + callee)
    t = texts[which] if which is not None and which < len(texts) else texts[0]
    return ex.call_closure(st, t, f, list(args))


def ex_strip(s_):
    from .engine import strip_generics
    return strip_generics(s_)


def m_map_or_else(ex, st, a, c, m):
    o = a[0]
    texts = _closure_texts(c)
    d_is_clo = not (isinstance(a[1], Opaque) and a[1].tag == 'fn')
    if o.variant in ('None', 'Err'):
        return apply_callable(ex, st, a[1], c, [o.fields[0]] if o.variant == 'Err' else [], which=0)
    return apply_callable(ex, st, a[2], c, [o.fields[0]], which=1 if d_is_clo and len(texts) > 1 else 0)


RAW_MODELS[:0] = [(r'^std::option::Option::map_or_else$|^Result::map_or_else$', m_map_or_else)]
MODELS = [(re.compile(p), f) for p, f in RAW_MODELS]


# ------------------------------------------------------------------ benign-set-3 batch 2
def m_str_parse(ex, st, a, c, m):
    if 'uuid::Uuid' in c or '::Uuid>' in c:
        return m_uuid_parse(ex, st, a, c, m)
    if 'semver::Version' in c or '<Version>' in c:
        return m_version_parse(ex, st, a, c, m)
    if 'Decimal' in c:
        return m_dec_from_str(ex, st, a, c, m)
    raise Unsupported('str::parse::<%s>' % c.split('parse', 1)[-1][:60])


def m_uuid_encode_buffer(ex, st, a, c, m):
    return [(True, Opaque('bytes', 'uuid-buffer'))]


def m_hyph_encode(ex, st, a, c, m):
    s_ = f_uuid_hyph(ex.deref(a[0]).fields[0])
    if 'upper' in c:
        raise Unsupported('upper-case uuid rendering')
    return [(True, s_)]


def m_option_transpose(ex, st, a, c, m):
    o = a[0]
    if o.ty == 'Option':
        if o.variant == 'None':
            return [(True, ok(NONE()))]
        r = o.fields[0]
        if isinstance(r, Opaque):
            return [(True, r)]                   # a panic / out-of-bounds marker produced inside the mapped closure
        return [(True, ok(some(r.fields[0])) if r.variant == 'Ok' else err(r.fields[0]))]
    # Result<Option<T>, E> -> Option<Result<T, E>>
    if o.variant == 'Err':
        return [(True, some(err(o.fields[0])))]
    inner = o.fields[0]
    return [(True, some(ok(inner.fields[0])) if inner.variant == 'Some' else NONE())]


RAW_MODELS[:0] = [
    (r'^core::str::<impl str>::parse$', m_str_parse),
    (r'^uuid::Uuid::encode_buffer$', m_uuid_encode_buffer), (r'^Hyphenated::encode_(lower|upper)$|^uuid::fmt::Hyphenated::encode_(lower|upper)$', m_hyph_encode),
    (r'^std::option::Option::transpose$|^Result::transpose$', m_option_transpose),
]
MODELS = [(re.compile(p), f) for p, f in RAW_MODELS]


# ------------------------------------------------------------------ benign-set-3 batch 3
def m_string_from_any(ex, st, a, c, m):
    return [(True, sval(ex, a[0]))]


def m_identity_into(ex, st, a, c, m):
    return [(True, a[0])]


RAW_MODELS[:0] = [
    (r'^<(std::string::)?String as From<(Addr|&Addr|&str|&String|String|&mut str|std::string::String)>>::from$', m_string_from_any),
    (r'^once$', m_iter_once),
    (r'^<(MsgTransferRequest|BankMsg|CosmosMsg.*) as Into<CosmosMsg.*>>::into$|^<CosmosMsg.* as From<(MsgTransferRequest|BankMsg)>>::from$', m_identity_into),
]
MODELS = [(re.compile(p), f) for p, f in RAW_MODELS]


def m_option_iter(ex, st, a, c, m):
    o = ex.deref(a[0])
    return [(True, Adt('Iter', None, [[o.fields[0]] if o.variant in ('Some', 'Ok') else [], 0]))]


RAW_MODELS[:0] = [(r'^std::option::Option::(iter|iter_mut|into_iter)$|^Result::(iter|into_iter)$', m_option_iter)]
MODELS = [(re.compile(p), f) for p, f in RAW_MODELS]


def m_stderr_from_overflow(ex, st, a, c, m):
    return [(True, Adt('StdError', 'Overflow', [a[0]]))]


def m_slice_to_vec(ex, st, a, c, m):
    return [(True, clone(list(ex.deref(a[0])), {}))]


RAW_MODELS[:0] = [
    (r'^<(cosmwasm_std::)?StdError as From<(cosmwasm_std::)?OverflowError>>::from$', m_stderr_from_overflow),
    (r'^(alloc::|core::)?slice::<impl \[.*\]>::to_vec$', m_slice_to_vec),
]
MODELS = [(re.compile(p), f) for p, f in RAW_MODELS]


def m_nonzero_new(ex, st, a, c, m):
    x = uval(ex, a[0])
    return [(x != 0, some(Adt('NonZero', None, [x]))), (x == 0, NONE())]


def m_nonzero_get(ex, st, a, c, m):
    return [(True, ex.deref(a[0]).fields[0])]


def m_u_rem(ex, st, a, c, m):
    x, y = uval(ex, a[0]), uval(ex, a[1])
    if z3.is_int_value(z3.simplify(y)) and z3.simplify(y).as_long() != 0:
        return [(True, U(x % y))]
    q, r = ex.euclid(st, x, y) if not z3.is_int_value(z3.simplify(y)) else (None, x % y)
    return [(y != 0, U(r)), (y == 0, PANIC('Uint128 remainder by zero'))]


RAW_MODELS[:0] = [
    (r'^(std::num::|core::num::)?NonZero(U128|U64)?::new$|^core::num::nonzero::NonZero::new$', m_nonzero_new),
    (r'^(std::num::|core::num::)?NonZero(U128|U64)?::get$|^core::num::nonzero::NonZero::get$', m_nonzero_get),
    (r'^<Uint128 as (std::ops::)?Rem(<.*>)?>::rem$', m_u_rem),
]
MODELS = [(re.compile(p), f) for p, f in RAW_MODELS]


# ------------------------------------------------------------------ benign-set-4 batch
def m_stderror_overflow(ex, st, a, c, m):
    return [(True, Adt('StdError', 'Overflow', [a[0]]))]


def m_clone_from(ex, st, a, c, m):
    src = clone(ex.deref(a[1]), {})
    r = a[0]
    while isinstance(r, Ref) and isinstance(ex.read(r.cell, r.path), Ref):
        r = ex.read(r.cell, r.path)
    if not isinstance(r, Ref):
        raise Unsupported('clone_from through a value')
    ex.write(r.cell, r.path, src)
    return [(True, unit())]


def _set_items(ex, v):
    v = ex.deref(v)
    return v.fields[0] if isinstance(v, Adt) and v.ty == 'HashSet' else v


def m_set_remove(ex, st, a, c, m):
    """remove(&x): every list entry equal to x stands for the one set element that goes; symbolic equalities fork"""
    items = _set_items(ex, a[0])
    x = full_deref(ex, a[1])
    eqs = [z3.simplify(struct_eq(e, x)) for e in items]
    unknown = [i for i, q in enumerate(eqs) if not (z3.is_true(q) or z3.is_false(q))]
    if len(unknown) > 4:
        raise Unsupported('set removal with more than 4 undetermined equalities')
    outs = []
    for mask in range(1 << len(unknown)):
        chosen = {unknown[j] for j in range(len(unknown)) if mask >> j & 1}
        conds = [eqs[i] if i in chosen else z3.Not(eqs[i]) for i in unknown]
        gone = chosen | {i for i, q in enumerate(eqs) if z3.is_true(q)}
        cnd = z3.simplify(z3.And(*conds)) if conds else True
        if cnd is not True and z3.is_false(cnd):
            continue

        def eff(st2, gone=frozenset(gone)):
            memo = getattr(st2, 'fork_memo', None)
            ref = clone(a[0], memo) if memo else a[0]
            its = _set_items(ex, ref)
            its[:] = [e for i, e in enumerate(its) if i not in gone]
        outs.append((True if cnd is True or z3.is_true(cnd) else cnd, z3.BoolVal(bool(gone)), eff))
    return outs


def m_set_is_empty(ex, st, a, c, m):
    return [(True, z3.BoolVal(len(_set_items(ex, a[0])) == 0))]


def m_set_insert(ex, st, a, c, m):
    items = _set_items(ex, a[0])
    x = full_deref(ex, a[1]) if isinstance(a[1], Ref) else a[1]
    present = z3.simplify(z3.Or(*[struct_eq(e, x) for e in items])) if items else z3.BoolVal(False)
    items.append(x)                      # duplicates in the list stand for one element: membership and removal treat them so
    return [(True, z3.Not(present))]


RAW_MODELS[:0] = [
    (r'^(cosmwasm_std::)?StdError::overflow$', m_stderror_overflow),
    (r'^<.* as Clone>::clone_from$', m_clone_from),
    (r'^(HashSet|BTreeSet)::remove$', m_set_remove), (r'^(HashSet|BTreeSet)::is_empty$', m_set_is_empty), (r'^(HashSet|BTreeSet)::insert$', m_set_insert),
]
MODELS = [(re.compile(p), f) for p, f in RAW_MODELS]


def m_set_new(ex, st, a, c, m):
    return [(True, Adt('HashSet', None, [[]]))]


RAW_MODELS[:0] = [(r'^(HashSet|BTreeSet)::(new|with_capacity)$|^<(HashSet|BTreeSet)<.*> as Default>::default$', m_set_new)]
MODELS = [(re.compile(p), f) for p, f in RAW_MODELS]

