"""per-property check definitions: which step specs are explored and which obligations are decided"""
import json, os, sys
from . import steps as ST, runner as R

REVERSALS = ST.ASK_KINDS + ST.BID_KINDS
FUND_MOVERS = REVERSALS + ['ApproveAsk', 'CreateAsk', 'CreateBid', 'ExecuteMatch']

KINDS = {
    'C01': FUND_MOVERS,
    'C02': ['ExecuteMatch'],
    'C03': ['ExecuteMatch'],
    'C04': REVERSALS,
    'C05': FUND_MOVERS,
    'C06': ['CancelAsk', 'CancelBid', 'ExpireAsk', 'ExpireBid'],
    'C08': ['ApproveAsk', 'ExecuteMatch', 'RejectAskNone', 'RejectAskSome', 'ExpireAsk', 'CancelAsk'],
    'C09': ['CreateBid', 'ExecuteMatch', 'RejectBidNone', 'RejectBidSome', 'CancelBid', 'ExpireBid'],
    'C10': FUND_MOVERS,
    'C17': FUND_MOVERS,
}


def run(pid, tier, seed, jobs=None, only=None):
    if pid in KINDS:
        kinds = [k for k in KINDS[pid] if not only or k in only]
        specs = ST.specs_for(kinds, tier)
        return R.run_check(pid, tier, seed, specs, jobs=jobs)
    print('unknown or not-applicable property ' + pid)
    return 2


def replay_file(pid, path):
    from . import harness as H
    R.build_replay()
    rec = json.load(open(path))
    nat = H.run_replay(rec['scenario'])['steps'][0]
    same = nat == rec.get('native')
    print(json.dumps({'signature': rec.get('signature'), 'native_now': nat, 'same_as_recorded': same}, indent=1)[:6000])
    if same:
        print('VIOLATION property=%s replay=%s' % (pid, path))
        return 1
    return 0
