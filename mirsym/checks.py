"""per-property check definitions: which step specs are explored and which obligations are decided"""
import json, os, sys
from . import steps as ST, runner as R

REVERSALS = ST.ASK_KINDS + ST.BID_KINDS
FUND_MOVERS = REVERSALS + ['ApproveAsk', 'CreateAsk', 'CreateBid', 'ExecuteMatch']

KINDS = {
    'C01': FUND_MOVERS,
    'C02': ['ExecuteMatch'],
    'C03': ['ExecuteMatch'],
    'C04': REVERSALS,
    'C05': FUND_MOVERS,
    'C08': ['ApproveAsk', 'CreateAsk', 'ExecuteMatch', 'RejectAskNone', 'RejectAskSome', 'ExpireAsk', 'CancelAsk'],
    'C09': ['CreateBid', 'ExecuteMatch', 'RejectBidNone', 'RejectBidSome', 'CancelBid', 'ExpireBid'],
    'C10': FUND_MOVERS,
    'C17': FUND_MOVERS,
    'C07': ['CreateAsk', 'CreateBid'],
    'C12': ['ModifyContract'],
}


REACHED_STATE_TEMPLATES = ('C02', 'C03', 'C04', 'C07', 'C08', 'C09', 'C12', 'C17')
UNIFORM_MARKERS_IN_QUICK = ('C03', 'C05', 'C09', 'C17')
INV_ESTABLISHED_BY = {'C02': ['CreateAsk', 'CreateBid', 'ApproveAsk'], 'C03': ['CreateAsk', 'CreateBid', 'ApproveAsk'], 'C04': ['CreateAsk', 'CreateBid', 'ApproveAsk'],
                      'C09': ['CreateAsk', 'ApproveAsk'], 'C10': []}


def specs_c11(tier):
    """books holding two asks and two bids: the request names at most one of each, the others must come through untouched"""
    out = []
    for s in ST.specs_for(FUND_MOVERS + ['ModifyContract'], tier, funds_variants=False):
        if s['kind'] == 'ModifyContract':
            m = dict(s['mod'])
            if sum(m.values()) not in (0, 8) :
                continue
        if s['kind'] == 'ExecuteMatch' and s.get('markers') and any(f for _, f in s['markers']):
            continue            # the frame does not depend on the transfer mechanism: one marker assignment
        if s['kind'] in ('CreateAsk', 'CreateBid') and s['nfunds'] == 2:
            continue
        s = dict(s, extra_ask='Ready' if s['ask'] != 'Ready' else 'Basic', extra_bid=not s['bidfee'], n_conv=2 if s['kind'] in ('CreateAsk', 'ApproveAsk') else s['n_conv'])
        out.append(s)
    return out


def run(pid, tier, seed, jobs=None, only=None):
    if pid in KINDS:
        kinds = [k for k in KINDS[pid] if not only or k in only]
        specs = ST.specs_for(kinds, tier)
        extra = []
        if pid in INV_ESTABLISHED_BY and not only:
            # these per-operation statements are decided over Inv books: the requests that put orders on the book must establish Inv
            specs = specs + ST.specs_for([k for k in INV_ESTABLISHED_BY[pid] if k not in kinds], tier, funds_variants=False)
        if tier == 'quick' and pid in UNIFORM_MARKERS_IN_QUICK:
            # these statements do not mention the transfer mechanism: quick explores the two uniform marker assignments of each match
            # shape (mixed assignments are explored by C01/C02/C10 in quick and by every property in thorough)
            def uniform(s_):
                mk = s_.get('markers')
                return not mk or all(f for _, f in mk) or not any(f for _, f in mk)
            specs = [s_ for s_ in specs if uniform(s_)]
            extra = ['quick tier: match shapes explored under the two uniform marker-type assignments only (all restricted / none)']
        if pid == 'C01' and not only:
            # bounded model checking from the empty book along accepted-request templates (independent of Inv)
            specs = specs + ST.history_templates(tier)
            extra = extra + ['history templates: every denomination an ordinary coin; depth <= %d accepted requests from the empty book' % max(len(h['steps']) for h in ST.history_templates(tier))]
        if pid == 'C05' and (not only or 'ModifyContract' in only):
            # "only configured executors can ... change the configuration"
            specs = specs + [s_ for s_ in ST.specs_for(['ModifyContract'], tier) if sum(f for _, f in s_['mod']) in (0, 1, 8)][:12]
        if pid == 'C05' and not only:
            # the same statement over reachable states only: role lists replaced by accepted configuration changes, then privileged requests
            specs = specs + ST.history_templates(tier, 'C05')
            extra = extra + ['role histories from the empty store: instantiate (1 executor, 1 approver), <= 4 accepted requests, every denomination an ordinary coin']
        if pid == 'C10' and not only:
            # "the contract emits no other kind of message": the entry points that are not order operations are held to the same rule
            from . import entry as EN_
            mig = [dict(s_, _opts={'builder': 'build_migrate', 'runner': 'run_migrate'}) for s_ in EN_.specs_migrate(tier)]
            ins = [dict(s_, _opts={'builder': 'build_instantiate', 'runner': 'run_instantiate'}) for s_ in EN_.specs_instantiate(tier)[:8]]
            mod = [s_ for s_ in ST.specs_for(['ModifyContract'], tier) if sum(f for _, f in s_['mod']) in (0, 8)][:6]
            specs = specs + mig + ins + mod
            extra = extra + ['also every response of migrate (%d shapes), instantiate (%d shapes) and configuration change (%d shapes)' % (len(mig), len(ins), len(mod))]
        if pid in REACHED_STATE_TEMPLATES and not only:
            hs = ST.history_templates(tier, pid)
            specs = specs + hs
            extra = extra + ['reached-state templates (%d): the same obligations on the last request of histories grown from the empty store by instantiate and <= %d accepted '
                             'requests (1 executor, 1 approver, every denomination an ordinary coin); no state invariant assumed there; at most %d histories per template, depth-first '
                             '(a template cut short is counted as template_truncated_* in paths_by_outcome)' % (len(hs), max(len(h['steps']) for h in hs) - 1, 600 if tier == 'quick' else 1500)]
        return R.run_check(pid, tier, seed, specs, jobs=jobs, extra_assumptions=extra)
    if pid == 'C06':
        # exits from an arbitrary Inv book + preservation of Inv by every request kind (reduced match shapes: Inv does not depend on the mechanism)
        specs = ST.specs_for([k for k in FUND_MOVERS if k != 'ExecuteMatch'], tier)
        for s_ in ST.specs_for(['ExecuteMatch'], tier, funds_variants=False):
            mk = s_.get('markers')
            if s_['ask'] == 'Pending' or (mk and (all(f for _, f in mk) or not any(f for _, f in mk))):
                specs.append(s_)
        specs = [s_ for s_ in specs if not only or s_['kind'] in only]
        extra = []
        if not only:
            hs = ST.history_templates(tier, pid)
            specs = specs + hs
            extra = ['reached-state templates (%d): exits after partial fills / rejects, a fee-account change and a migration, on histories grown from the empty store' % len(hs)]
        return R.run_check(pid, tier, seed, specs, opts={'extra': 'then_exit'}, jobs=jobs, extra_assumptions=extra)
    if pid == 'C11':
        specs = [s for s in specs_c11(tier) if not only or s['kind'] in only]
        extra = []
        if not only:
            hs = ST.history_templates(tier, pid)
            specs = specs + hs
            extra = ['reached-state templates (%d): the same obligations on the last request of histories grown from the empty store' % len(hs)]
        rc = R.run_check(pid, tier, seed, specs, jobs=jobs, extra_assumptions=extra)
        if tier == 'thorough' and not only:
            rc = kani_second_opinion(pid, rc, harness='update_remaining_amounts_only_accumulates', bounds='one symbolic Action (any kind, optional fee), u64-range operands, unwinding assertions on')
        return rc
    from . import entry as EN
    if pid == 'C13':
        return R.run_check(pid, tier, seed, EN.specs_instantiate(tier), opts={'builder': 'build_instantiate', 'runner': 'run_instantiate', 'extra': 'integrality'}, jobs=jobs)
    if pid == 'C14':
        return R.run_check(pid, tier, seed, EN.specs_migrate(tier), opts={'builder': 'build_migrate', 'runner': 'run_migrate', 'extra': 'idempotence'}, jobs=jobs)
    if pid == 'C15':
        rc = R.run_check(pid, tier, seed, EN.specs_migrate(tier, for_c15=True), opts={'builder': 'build_migrate', 'runner': 'run_migrate'}, jobs=jobs)
        if tier == 'thorough':
            rc = kani_second_opinion(pid, rc)
        return rc
    if pid == 'C16':
        hs = ST.history_templates(tier, pid)
        return R.run_check(pid, tier, seed, EN.specs_query(tier) + hs, opts={'builder': 'build_query', 'runner': 'run_query', 'extra': 'then_cancel'}, jobs=jobs,
                           extra_assumptions=['reached-state templates (%d): queries issued after histories grown from the empty store (instantiate, <= 3 accepted requests)' % len(hs)])
    print('unknown or not-applicable property ' + pid)
    return 2


def kani_second_opinion(pid, rc, harness='conversion_sums_match_event_log', bounds='event log <= 2 events, unwind 4 with unwinding assertions, u64 amounts'):
    """thorough tier of C15: Kani/CBMC on the COMPILED conversion `BidOrderV3::from(BidOrderV2)` (<= 2 symbolic events, u64 amounts, unwinding assertions on)"""
    import subprocess, time, re
    t0 = time.time()
    env = dict(os.environ, CARGO_NET_OFFLINE='true', CARGO_TARGET_DIR='/verif/.cache/kani-target')
    try:
        p = subprocess.run(['cargo', 'kani', '--harness', harness], cwd=os.path.join(os.path.dirname(os.path.dirname(os.path.abspath(__file__))), 'kani'), env=env, capture_output=True, text=True, timeout=3000)
        out = p.stdout + p.stderr
    except Exception as e:
        out = 'kani did not run: %r' % (e,)
    ok_ = 'VERIFICATION:- SUCCESSFUL' in out and '1 of 1 cover properties satisfied' in out
    m = re.search(r'\*\* (\d+) of (\d+) failed', out)
    fn = os.path.join(R.VERIF, 'evidence', pid + '.json')
    ev = json.load(open(fn))
    ev['coverage']['kani_leaf_harness'] = {'harness': 'ats-kani::' + harness, 'bounds': bounds, 'verdict': 'SUCCESSFUL' if ok_ else 'NOT SUCCESSFUL',
                                           'checks_failed_of_total': m.groups() if m else None, 'cover_witness_satisfied': '1 of 1 cover properties satisfied' in out, 'wall_s': round(time.time() - t0, 1)}
    ev['wall_s'] = round(ev['wall_s'] + time.time() - t0, 2)
    if not ok_:
        ev['coverage'].setdefault('inconclusive', []).append('Kani second opinion on the compiled conversion did not succeed: ' + out[-600:])
    json.dump(ev, open(fn, 'w'), indent=1, sort_keys=True)
    print('kani second opinion: %s (%.0fs)' % ('SUCCESSFUL' if ok_ else 'NOT SUCCESSFUL', time.time() - t0))
    if not ok_ and rc == 0:
        print('INCONCLUSIVE: Kani disagrees with / could not confirm the MIR-level verdict on the legacy-bid conversion')
        return 2
    return rc


def replay_file(pid, path):
    from . import harness as H
    R.build_replay()
    rec = json.load(open(path))
    steps_now = H.run_replay(rec['scenario'])['steps']
    recorded = rec.get('native')
    if isinstance(recorded, list):                 # a history: every step was recorded
        nat, same = steps_now, steps_now == recorded
    else:                                          # one request (or the second of a composed pair)
        same = recorded in steps_now
        nat = steps_now[-1] if same and steps_now[-1] == recorded else steps_now[0]
    print(json.dumps({'signature': rec.get('signature'), 'native_now': nat, 'same_as_recorded': same}, indent=1)[:6000])
    if same:
        print('VIOLATION property=%s replay=%s' % (pid, path))
        return 1
    return 0
