"""Deciding tier (exact z3 queries), oracle helpers over path summaries, and native replay glue."""
import json, os, subprocess, time, hashlib, itertools, re
import z3
from .engine import (Adt, Opaque, StrS, all_lits, lit, EMPTY, f_uuid_ok, f_uuid_hyph, f_dec_ok, f_dec_n, f_dec_d, f_addr_ok,
                     f_marker_found, f_marker_dec, f_marker_type, f_attr_ok, f_sv_ok, f_sv_maj, f_sv_min, f_sv_pat, f_sv_pre, f_numstr)
from .concretise import Concretiser
from .world import CONTRACT

REPLAY_BIN = '/verif/.cache/replay-target/debug/ats-replay'
CONTRACT_TEXT = 'cosmos2contract'


class Decider:
    """fresh solver per obligation on the exact encoding; counts and times every query"""

    def __init__(self, timeout_ms=20000, dump_dir=None, seed=0, cross_check=0):
        self.timeout_ms, self.dump_dir, self.seed = timeout_ms, dump_dir, seed
        self.cross_check = cross_check          # number of queries per worker re-decided by cvc5 on the SMT-LIB2 text
        self.cross = {'agree': 0, 'cvc5_unknown': 0, 'disagree': 0, 'error': 0}
        self.cross_disagreements = []
        self.n = 0
        self.t = 0.0
        self.stats = {'unsat': 0, 'sat': 0, 'unknown': 0}
        self.cache = {}
        self.dumped = 0

    def axioms(self):
        ls = list(all_lits().values())
        return [z3.Distinct(*ls)] if len(ls) > 1 else []

    def _solver(self):
        s = z3.Solver()
        s.set('timeout', self.timeout_ms)
        s.set('random_seed', self.seed)
        return s

    def check(self, constraints, name=''):
        """-> ('unsat'|'sat'|'unknown', model|None)"""
        key = tuple(sorted(c.get_id() for c in constraints))
        hit = self.cache.get(key)
        if hit is not None and hit[0] == 'unsat':
            return hit
        s = self._solver()
        for a in self.axioms():
            s.add(a)
        for c in constraints:
            s.add(c)
        t0 = time.time()
        r = s.check()
        if r == z3.unknown:
            # second opinion: other seed, three times the budget
            s2 = z3.Solver()
            s2.set('timeout', self.timeout_ms * 3)
            s2.set('random_seed', self.seed + 17)
            for a in self.axioms():
                s2.add(a)
            for c in constraints:
                s2.add(c)
            r = s2.check()
            if r != z3.unknown:
                s = s2
            self.retries = getattr(self, 'retries', 0) + 1
        dt = time.time() - t0
        self.n += 1
        self.t += dt
        res = str(r)
        self.stats[res] += 1
        if self.dump_dir and self.dumped < 400:
            os.makedirs(self.dump_dir, exist_ok=True)
            fn = os.path.join(self.dump_dir, 'q%05d_%s.smt2' % (self.n, re.sub(r'\W+', '_', name)[:60]))
            with open(fn, 'w') as f:
                f.write('; expected: %s\n(set-logic ALL)\n' % res)
                f.write(s.to_smt2())
            self.dumped += 1
        if self.cross_check > 0 and res in ('sat', 'unsat') and name not in ('witness', 'witness-raw'):
            self.cross_check -= 1
            self._cvc5(s, res, name)
        out = (res, s.model() if r == z3.sat else None)
        if res == 'unsat':
            self.cache[key] = (res, None)
            self._keep = getattr(self, '_keep', [])
            self._keep.append(constraints)       # keep ASTs alive: ids are recycled
        return out

    def _cvc5(self, solver, z3_res, name):
        import tempfile
        text = '(set-logic ALL)\n' + solver.to_smt2()
        with tempfile.NamedTemporaryFile('w', suffix='.smt2', delete=False, dir='/tmp') as f:
            f.write(text)
            fn = f.name
        try:
            p = subprocess.run(['cvc5', '--lang', 'smt2', '--tlimit=%d' % min(self.timeout_ms, 30000), fn], capture_output=True, text=True, timeout=self.timeout_ms / 1000 + 30)
            out = (p.stdout + p.stderr).strip()
            if '(error' in out:
                self.cross['error'] += 1
                self.cross_disagreements.append({'query': name, 'z3': z3_res, 'cvc5': out[:200]})
            elif out.startswith('sat') or out.startswith('unsat'):
                verdict = out.split()[0]
                if verdict == z3_res:
                    self.cross['agree'] += 1
                else:
                    self.cross['disagree'] += 1
                    self.cross_disagreements.append({'query': name, 'z3': z3_res, 'cvc5': verdict})
            else:
                self.cross['cvc5_unknown'] += 1
        except Exception as e:
            self.cross['cvc5_unknown'] += 1
        finally:
            os.unlink(fn)

    def prove(self, pc, goal, name=''):
        """is pc => goal valid?  -> ('unsat' = holds | 'sat' = counterexample | 'unknown', model)"""
        return self.check(list(pc) + [z3.Not(goal)], name)

    def feasible(self, pc, extra=(), name=''):
        return self.check(list(pc) + list(extra), name)


# ---------------------------------------------------------------- transfers
def numstr_arg(t):
    if z3.is_app(t) and t.decl().name() == 'numstr':
        return t.arg(0)
    return None


class Transfer:
    __slots__ = ('kind', 'to', 'frm', 'denom', 'amount', 'admin', 'ncoins', 'wellformed', 'coins')

    def __repr__(self):
        return 'Transfer(%s to=%s from=%s %s %s admin=%s)' % (self.kind, self.to, self.frm, self.amount, self.denom, self.admin)


def transfers(path):
    """typed view of Response.messages"""
    out = []
    for msg in path.messages:
        t = Transfer()
        t.wellformed = True
        t.coins = None
        while isinstance(msg, Adt) and msg.ty == 'CosmosMsg' and msg.variant in ('Bank', 'Stargate', 'Any') and len(msg.fields) == 1 and isinstance(msg.fields[0], Adt):
            msg = msg.fields[0]            # spelled-out wrapping: same message
        if isinstance(msg, Adt) and msg.ty == 'BankMsg' and msg.variant == 'Send':
            t.kind = 'bank'
            t.to = msg.fields[0]
            coins = msg.fields[1]
            t.ncoins = len(coins)
            t.coins = [(c_.fields[0], c_.fields[1].fields[0]) for c_ in coins] if all(isinstance(c_, Adt) and c_.ty == 'Coin' for c_ in coins) else None
            t.frm, t.admin = CONTRACT, None
            if len(coins) == 1:
                t.denom, t.amount = coins[0].fields[0], coins[0].fields[1].fields[0]
            else:
                t.denom, t.amount, t.wellformed = None, None, False
        elif isinstance(msg, Adt) and msg.ty == 'MsgTransferRequest':
            t.kind = 'marker'
            amt, admin, frm, to = msg.fields
            t.to, t.frm, t.admin, t.ncoins = to, frm, admin, 1
            if isinstance(amt, Adt) and amt.variant == 'Some':
                pb = amt.fields[0]
                t.denom = pb.fields[0]
                a = numstr_arg(pb.fields[1])
                if a is None:
                    t.wellformed = False
                t.amount = a
            else:
                t.denom, t.amount, t.wellformed = None, None, False
        else:
            t.kind, t.to, t.frm, t.denom, t.amount, t.admin, t.ncoins, t.wellformed = 'other', None, None, None, None, None, 0, False
        out.append(t)
    return out


def paid(trs, account, denom):
    """total amount of `denom` moved TO `account` by the transfers (z3 Int term)"""
    tot = z3.IntVal(0)
    for t in trs:
        if t.wellformed:
            tot = tot + z3.If(z3.And(t.to == account, t.denom == denom), t.amount, 0)
    return tot


def drawn(trs, account, denom):
    """total amount of `denom` moved FROM `account`"""
    tot = z3.IntVal(0)
    for t in trs:
        if t.wellformed:
            tot = tot + z3.If(z3.And(t.frm == account, t.denom == denom), t.amount, 0)
    return tot


def restricted(denom):
    """the oracle's notion of a restricted marker: the marker module answers with marker_type == 2"""
    return z3.And(f_marker_found(denom), f_marker_dec(denom), f_marker_type(denom) == 2)


def attr_value(path, key):
    """value term of the first response attribute with literal key `key` (or None)"""
    k = lit(key)
    for a in path.attributes:
        if isinstance(a.fields[0], z3.ExprRef) and z3.eq(a.fields[0], k):
            return a.fields[1]
    return None


def attr_values(path, key):
    k = lit(key)
    return [a.fields[1] for a in path.attributes if isinstance(a.fields[0], z3.ExprRef) and z3.eq(a.fields[0], k)]


# ---------------------------------------------------------------- concretisation of a scenario + replay
def nice_constraints(sc):
    """extra constraints for witness models: strings of different roles do not coincide by accident, so that concrete text exists"""
    cs = []
    byrole = {}
    conc = Concretiser.__new__(Concretiser)
    for n, t in sc.sym.items():
        if isinstance(t, z3.ExprRef) and t.sort() == StrS:
            byrole.setdefault(Concretiser.role_of(conc, n), []).append(t)
    roles = list(byrole)
    for i, r1 in enumerate(roles):
        for r2 in roles[i + 1:]:
            for a in byrole[r1]:
                for b in byrole[r2]:
                    cs.append(z3.Or(a != b, a == EMPTY))
    for t in byrole.get('uuid', []):
        cs.append(z3.Implies(f_uuid_ok(t), z3.And(f_uuid_ok(f_uuid_hyph(t)), f_uuid_hyph(f_uuid_hyph(t)) == f_uuid_hyph(t))))
    uu = byrole.get('uuid', [])
    for i, a in enumerate(uu):
        for b in uu[i + 1:]:
            # two spellings of one uuid value share their canonical text, different values have different canonical texts
            cs.append(z3.Implies(z3.And(f_uuid_ok(a), f_uuid_ok(b), a != b, f_uuid_hyph(a) == a, f_uuid_hyph(b) == b), f_uuid_hyph(a) != f_uuid_hyph(b)))
    from .engine import f_dec_scale, f_dec_canon
    dd = byrole.get('decimal', [])
    for i, a in enumerate(dd):
        for b in dd[i + 1:]:
            # two different decimal texts differ in value, in the number of digits they are written with, or in canonicity
            cs.append(z3.Implies(z3.And(a != b, f_dec_ok(a), f_dec_ok(b)), z3.Or(f_dec_n(a) != f_dec_n(b), f_dec_scale(a) != f_dec_scale(b), f_dec_canon(a) != f_dec_canon(b))))
    from .engine import dec_T
    k_ = len(str(dec_T())) - 1
    for t in dd:
        # the number of digits a text is written with is consistent with its value (so that a spelling exists)
        cs.append(z3.Implies(f_dec_ok(t), z3.Or(*[z3.And(f_dec_scale(t) == j, f_dec_n(t) % (10 ** (k_ - j)) == 0) for j in range(k_ + 1)])))
    for t in byrole.get('semver', []):
        cs.append(z3.Implies(f_sv_ok(t), z3.And(f_sv_maj(t) >= 0, f_sv_min(t) >= 0, f_sv_pat(t) >= 0, f_sv_maj(t) < 1000, f_sv_min(t) < 1000, f_sv_pat(t) < 1000)))
    for role, ts in byrole.items():
        for t in ts:
            if role != 'decimal':
                cs.append(z3.Not(f_dec_ok(t)) if role in ('uuid', 'addr', 'denom', 'attr') else z3.BoolVal(True))
            if role == 'addr':
                pass
    # every denom that is queried decodes (the undecodable branch is unreachable through the real querier transport)
    return cs


def no_tie_constraints(world):
    """witness models avoid exact half-unit ties of the pro-rata quotient, where the real 28-digit arithmetic may land on either neighbour"""
    cs = []
    for n, d, r, *_ in world.ties:
        h = 2 * n + d
        cs += [h != 2 * d * r, h != 2 * d * (r + 1)]
    for n, d, r, *_ in getattr(world, 'floor_ties', []):
        cs += [n != d * r, n != d * (r + 1)]
    return cs


def tie_realising_constraints(world):
    """a counterexample that exists only AT a tie of a 28-digit quotient is realisable when that quotient really is cut short below its
    exact value: ask for a quotient a/q with fractional part exactly one third (0.333...3 is below 1/3), so the real arithmetic lands on
    the lower neighbour the tolerant encoding allows"""
    cs = []
    for t in list(world.ties) + list(getattr(world, 'floor_ties', [])):
        fac = t[3] if len(t) > 3 else None
        if fac is not None and fac[0] is not None and fac[2] is not None:
            a_, q_ = fac[0], fac[2]
            cs += [q_ % 3 == 0, 3 * (a_ % q_) == q_]
    return cs


def env_assumptions(sc):
    """facts about the environment that hold for every real querier/API (part of every claim)"""
    cs = []
    for n, t in sc.sym.items():
        if isinstance(t, z3.ExprRef) and t.sort() == StrS:
            cs.append(f_marker_dec(t))
    return cs


def build_replay(sc, model, step, eng):
    """scenario JSON for ats-replay from a model: seeded pre-state + one step"""
    c = Concretiser(model, sc.sym)
    c.text[c.val(CONTRACT)] = CONTRACT_TEXT
    c.used.add(CONTRACT_TEXT)
    c.assign_all()
    ti, sr = eng.ti, eng.serde_rename
    seed = {'asks': [], 'bids': []}
    w = sc.world
    seed['contract_info'] = c.json(w.items['contract_info'], ti, sr) if w.items.get('contract_info') is not None else None
    seed['version_info'] = c.json(w.items['version_info'], ti, sr) if w.items.get('version_info') is not None else None
    for e in w.maps['ask']:
        if c.bool(e.present):
            seed['asks'].append({'key': c.term_string(e.key, 'key'), 'value': c.json(e.val, ti, sr)})
    for e in w.maps['bid']:
        if c.bool(e.present):
            seed['bids'].append({'key': c.term_string(e.key, 'key'), 'format': 'v2' if e.fmt == 'BidOrderV2' else 'v3', 'value': c.json(e.val, ti, sr)})
    # rest-of-book: realise "non-empty remainder" by an extra order under an unrelated key
    for ns, lst, mk in (('ask', seed['asks'], None), ('bid', seed['bids'], None)):
        rn = w.rest_nonempty[ns]
        if c.bool(rn):
            filler_key = 'ffffffff-ffff-4fff-8fff-fffffffffff%d' % (1 if ns == 'ask' else 2)
            cfg = seed['contract_info'] or {}
            base = cfg.get('base_denom', 'fillerbase')
            quote = (cfg.get('supported_quote_denoms') or ['fillerquote'])[0]
            if ns == 'ask':
                lst.append({'key': filler_key, 'value': {'id': filler_key, 'owner': 'filler_owner', 'class': 'Basic', 'base': base, 'quote': quote, 'price': '1', 'size': str(int(cfg.get('size_increment', '1')))}})
            else:
                sz = str(int(cfg.get('size_increment', '1')))
                lst.append({'key': filler_key, 'format': 'v3', 'value': {'base': {'denom': base, 'amount': sz}, 'accumulated_base': '0', 'accumulated_quote': '0', 'accumulated_fee': '0',
                                                                           'fee': None, 'id': filler_key, 'owner': 'filler_owner', 'price': '1', 'quote': {'denom': quote, 'amount': sz}}})
    markers, attributes = {}, {}
    for n, t in sc.sym.items():
        if isinstance(t, z3.ExprRef) and t.sort() == StrS:
            txt = c.term_string(t, n)
            markers[txt] = c.marker_kind(t)
    if 'req.sender' in sc.sym:
        snd = sc.sym['req.sender']
        attributes[c.term_string(snd, 'sender')] = [c.term_string(a, 'attr') for a in (w.attrs or [])] if c.bool(f_attr_ok(snd)) else 'error'
    st = dict(step)
    st['msg'] = c.json(step['msg'], ti, sr) if not isinstance(step['msg'], dict) else step['msg']
    if 'sender' in st:
        st['sender'] = c.term_string(st['sender'], 'sender')
    if 'funds' in st:
        st['funds'] = [c.json(f, ti, sr) for f in st['funds']]
    return {'seed': seed, 'markers': markers, 'default_marker': 'none', 'attributes': attributes, 'steps': [st]}, c


def msg_json_fix(kind, j):
    """ExecuteMsg / QueryMsg JSON produced by Concretiser.json is already {variant: {fields}} (snake_case via serde_rename)"""
    return j


def run_replay(scenario_json):
    p = subprocess.run([REPLAY_BIN], input=json.dumps(scenario_json), capture_output=True, text=True, timeout=60)
    if p.returncode != 0:
        raise RuntimeError('ats-replay failed: %s' % p.stderr[:400])
    return json.loads(p.stdout)


def predicted_result(path, c, eng):
    """what the engine predicts for this path under the model behind Concretiser c"""
    ti, sr = eng.ti, eng.serde_rename
    pred = {'outcome': path.kind}
    if path.kind == 'err':
        pred['error_variant'] = path.detail
    if path.kind == 'ok':
        msgs = []
        for t in transfers(path):
            if t.kind == 'bank' and getattr(t, 'coins', None) is not None:
                msgs.append({'type': 'bank_send', 'to': c.term_string(t.to, 'addr'), 'coins': [{'denom': c.term_string(d_, 'denom'), 'amount': str(c.int(a_))} for d_, a_ in t.coins]})
            elif t.kind == 'marker' and t.wellformed:
                msgs.append({'type': 'marker_transfer', 'denom': c.term_string(t.denom, 'denom'), 'amount': str(c.int(t.amount)),
                             'administrator': c.term_string(t.admin, 'addr'), 'from': c.term_string(t.frm, 'addr'), 'to': c.term_string(t.to, 'addr')})
            else:
                msgs.append({'type': 'unmodelled'})
        pred['messages'] = msgs
        attrs = []
        for a in path.attributes:
            k, v = a.fields
            kk = c.term_string(k) if isinstance(k, z3.ExprRef) else None
            vv = c.term_string(v) if isinstance(v, z3.ExprRef) else None
            attrs.append({'key': kk, 'value': vv})
        pred['attributes'] = attrs
        if isinstance(path.resp, Adt) and path.resp.ty == 'Binary':
            inner = path.resp.fields[0]
            pred['data'] = c.json(inner.a[0], ti, sr) if isinstance(inner, Opaque) and inner.tag == 'Json' else None
    return pred


def storage_json(world, c, eng):
    ti, sr = eng.ti, eng.serde_rename
    out = {'asks': {}, 'bids': {}}
    out['contract_info'] = c.json(world.items['contract_info'], ti, sr) if world.items.get('contract_info') is not None else None
    out['version_info'] = c.json(world.items['version_info'], ti, sr) if world.items.get('version_info') is not None else None
    for ns, k in (('ask', 'asks'), ('bid', 'bids')):
        for e in world.maps[ns]:
            if c.bool(e.present):
                out[k][c.term_string(e.key, 'key')] = c.json(e.val, ti, sr)
    return out


def compare_replay(pred, post_storage, native_step, ignore_keys=()):
    """list of mismatch descriptions between the engine's prediction and the native result"""
    diffs = []
    nk = native_step['outcome']
    if pred['outcome'] != nk:
        diffs.append('outcome: predicted %s native %s (%s)' % (pred['outcome'], nk, native_step.get('error') or native_step.get('panic')))
        return diffs
    if nk == 'err' and pred.get('error_variant') != native_step.get('error_variant'):
        diffs.append('error variant: predicted %s native %s' % (pred.get('error_variant'), native_step.get('error')))
    if nk == 'ok':
        if 'messages' in pred and pred['messages'] != native_step['messages']:
            diffs.append('messages: predicted %s native %s' % (json.dumps(pred['messages']), json.dumps(native_step['messages'])))
        if 'attributes' in pred:
            na = native_step['attributes']
            if len(na) != len(pred['attributes']):
                diffs.append('attribute count: predicted %d native %d' % (len(pred['attributes']), len(na)))
            else:
                for p, n in zip(pred['attributes'], na):
                    if p['key'] is not None and p['key'] != n['key']:
                        diffs.append('attribute key: predicted %s native %s' % (p['key'], n['key']))
                    elif p['value'] is not None and p['value'] != n['value'] and n['key'] not in ignore_keys:
                        diffs.append('attribute %s: predicted %r native %r' % (n['key'], p['value'], n['value']))
    if 'data' in pred and pred['data'] is not None and nk == 'ok' and pred['data'] != native_step.get('data'):
        diffs.append('query data: predicted %s native %s' % (json.dumps(pred['data'], sort_keys=True), json.dumps(native_step.get('data'), sort_keys=True)))
    if post_storage is not None:
        ns = native_step['storage']
        for k in ('contract_info', 'version_info'):
            if post_storage.get(k) != ns.get(k):
                diffs.append('storage %s: predicted %s native %s' % (k, json.dumps(post_storage.get(k), sort_keys=True), json.dumps(ns.get(k), sort_keys=True)))
        for k in ('asks', 'bids'):
            pk = {a: b for a, b in post_storage[k].items()}
            nkd = {a: b for a, b in ns[k].items() if not a.startswith('ffffffff-ffff-4fff-8fff-fffffffffff')}
            if pk != nkd:
                diffs.append('storage %s: predicted %s native %s' % (k, json.dumps(pk, sort_keys=True), json.dumps(nkd, sort_keys=True)))
    return diffs
