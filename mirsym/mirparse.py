"""Throwaway spike: parse rustc --emit=mir text into a small AST. Not framework code."""
import re, sys, collections

# ---------- bracket-aware helpers ----------
OPEN = {'(': ')', '[': ']', '{': '}', '<': '>'}
CLOSE = {v: k for k, v in OPEN.items()}


def split_top(s, sep=','):
    """split s at top-level sep, respecting () [] {} <> and string literals; '->' is not a bracket."""
    out, depth, cur, i, n = [], 0, [], 0, len(s)
    while i < n:
        c = s[i]
        if c == '"':
            j = i + 1
            while j < n and s[j] != '"':
                j += 2 if s[j] == '\\' else 1
            cur.append(s[i:j + 1]); i = j + 1; continue
        if c == '-' and i + 1 < n and s[i + 1] == '>':
            cur.append('->'); i += 2; continue
        if c in OPEN:
            depth += 1
        elif c in CLOSE:
            depth -= 1
        if c == sep and depth == 0:
            out.append(''.join(cur).strip()); cur = []
        else:
            cur.append(c)
        i += 1
    t = ''.join(cur).strip()
    if t:
        out.append(t)
    return out


def match_close(s, i):
    """s[i] is an opener; return index of its closer (string-literal and '->' aware)."""
    depth, n = 0, len(s)
    while i < n:
        c = s[i]
        if c == '"':
            j = i + 1
            while j < n and s[j] != '"':
                j += 2 if s[j] == '\\' else 1
            i = j + 1; continue
        if c == '-' and i + 1 < n and s[i + 1] == '>':
            i += 2; continue
        if c in OPEN:
            depth += 1
        elif c in CLOSE:
            depth -= 1
            if depth == 0:
                return i
        i += 1
    raise ValueError('unbalanced: ' + s[:80])


def top_positions(s):
    """yield (i, c) for characters at bracket depth 0, outside string literals ('->' skipped)."""
    depth, i, n = 0, 0, len(s)
    while i < n:
        c = s[i]
        if c == '"':
            j = i + 1
            while j < n and s[j] != '"':
                j += 2 if s[j] == '\\' else 1
            i = j + 1; continue
        if c == '-' and i + 1 < n and s[i + 1] == '>':
            i += 2; continue
        if c in OPEN:
            if depth == 0:
                yield i, c
            depth += 1
        elif c in CLOSE:
            depth -= 1
        elif depth == 0:
            yield i, c
        i += 1


# ---------- places / operands / rvalues ----------
Place = collections.namedtuple('Place', 'local proj')      # proj: list of ('deref',) ('field',n,ty) ('downcast',name) ('index',local) ('constindex',..)
Operand = collections.namedtuple('Operand', 'kind val')     # kind copy|move|const
Rvalue = collections.namedtuple('Rvalue', 'kind args')


def parse_place(s):
    s = s.strip()
    proj = []
    # peel suffix index projections
    while s.endswith(']') and not s.startswith('['):
        k = s.rfind('[')
        idx = s[k + 1:-1]
        proj.append(('index', idx))
        s = s[:k].strip()
    if s.startswith('(') and match_close(s, 0) == len(s) - 1:
        inner = s[1:-1].strip()
        if inner.startswith('*'):
            p = parse_place(inner[1:])
            return Place(p.local, p.proj + [('deref',)] + proj[::-1])
        # (P as Variant)   or (P.N: TYPE)
        m = re.match(r'^(.*) as ([A-Za-z_][A-Za-z0-9_]*)$', inner)
        if m and not re.search(r':\s', inner[len(m.group(1)):]):
            p = parse_place(m.group(1))
            return Place(p.local, p.proj + [('downcast', m.group(2))] + proj[::-1])
        # field: find top-level ": " splitting  P.N  and TYPE
        depth = 0
        for i, c in enumerate(inner):
            if c in '([{<':
                depth += 1
            elif c in ')]}>' and not (c == '>' and inner[i - 1] == '-'):
                depth -= 1
            elif c == ':' and depth == 0 and inner[i + 1:i + 2] == ' ':
                left, ty = inner[:i], inner[i + 2:]
                k = left.rfind('.')
                p = parse_place(left[:k])
                return Place(p.local, p.proj + [('field', int(left[k + 1:]), ty)] + proj[::-1])
        raise ValueError('place? ' + s)
    m = re.match(r'^_(\d+)$', s)
    if m:
        return Place(int(m.group(1)), proj[::-1])
    raise ValueError('place? ' + s)


def parse_operand(s):
    s = s.strip()
    if s.startswith('copy '):
        return Operand('copy', parse_place(s[5:]))
    if s.startswith('move '):
        return Operand('move', parse_place(s[5:]))
    if s.startswith('const '):
        return Operand('const', s[6:].strip())
    if re.match(r'^[A-Za-z_<{]', s):
        return Operand('fnitem', s)
    raise ValueError('operand? ' + s)


BINOPS = {'Add', 'Sub', 'Mul', 'Div', 'Rem', 'BitAnd', 'BitOr', 'BitXor', 'Shl', 'Shr', 'Eq', 'Ne', 'Lt', 'Le', 'Gt', 'Ge',
          'AddWithOverflow', 'SubWithOverflow', 'MulWithOverflow', 'AddUnchecked', 'SubUnchecked', 'MulUnchecked', 'Offset', 'Cmp'}
UNOPS = {'Not', 'Neg', 'PtrMetadata'}


def parse_rvalue(s):
    s = s.strip()
    if s.startswith(('copy ', 'move ', 'const ')):
        # maybe a cast:  OPND as TYPE (Kind)
        m = re.match(r'^(.*?) as (.+) \((\w+)(?:\([^()]*\))?\)$', s)
        if m and not s.startswith('const "'):
            return Rvalue('cast', [parse_operand(m.group(1)), m.group(2), m.group(3)])
        return Rvalue('use', [parse_operand(s)])
    if s.startswith('&raw '):
        mut, rest = s[5:].split(' ', 1)
        if rest.startswith('(fake) '):
            rest = rest[7:]                  # fake borrows of match guards: no run-time meaning
        return Rvalue('rawref', [mut, parse_place(rest)])
    if s.startswith('&mut '):
        return Rvalue('ref', ['mut', parse_place(s[5:])])
    if s.startswith('&'):
        rest = s[1:].strip()
        if rest.startswith('fake '):
            rest = rest.split(' ', 2)[2] if rest.startswith('fake shallow') else rest[5:]
        return Rvalue('ref', ['shared', parse_place(rest)])
    if s.startswith('discriminant('):
        return Rvalue('discriminant', [parse_place(s[len('discriminant('):-1])])
    m = re.match(r'^([A-Za-z]+)\((.*)\)$', s)
    if m and m.group(1) in BINOPS:
        a, b = split_top(m.group(2))
        return Rvalue('binop', [m.group(1), parse_operand(a), parse_operand(b)])
    if m and m.group(1) in UNOPS:
        return Rvalue('unop', [m.group(1), parse_operand(m.group(2))])
    if m and m.group(1) in ('Len', 'CopyForDeref'):
        return Rvalue(m.group(1).lower(), [parse_place(m.group(2))])
    if m and m.group(1) in ('SizeOf', 'AlignOf'):
        return Rvalue('nullop', [m.group(1), m.group(2)])
    if s.startswith('['):
        inner = s[1:-1]
        parts = split_top(inner, ';')
        if len(parts) == 2:
            return Rvalue('repeat', [parse_operand(parts[0]), parts[1]])
        return Rvalue('array', [parse_operand(x) for x in split_top(inner)])
    if s.startswith('('):
        return Rvalue('tuple', [parse_operand(x) for x in split_top(s[1:-1])])
    if s.startswith('{closure@') or s.startswith('{coroutine@'):
        k = match_close(s, 0)
        name, rest = s[:k + 1], s[k + 1:].strip()
        fields = []
        if rest.startswith('{'):
            for f in split_top(rest[1:-1]):
                fn, fv = f.split(': ', 1)
                fields.append((fn.strip(), parse_operand(fv)))
        return Rvalue('closure', [name, fields])
    # aggregate:  Path  |  Path(ops)  |  Path { f: op, .. }
    if s.endswith('}') and ' { ' in s:
        k = s.index(' { ')
        # make sure the brace closes at the end
        path, body = s[:k], s[k + 3:-1].strip()
        fields = []
        for f in split_top(body):
            fn, fv = f.split(': ', 1)
            fields.append((fn.strip(), parse_operand(fv)))
        return Rvalue('adt', [path, 'struct', fields])
    if s.endswith(')'):
        # find the '(' matching the final ')'
        i = next(k for k, c in top_positions(s) if c == '(')
        path, body = s[:i], s[i + 1:-1]
        return Rvalue('adt', [path, 'tuple', [parse_operand(x) for x in split_top(body)]])
    if re.match(r'^[A-Za-z_<]', s):
        return Rvalue('adt', [s, 'unit', []])
    raise ValueError('rvalue? ' + s)


Stmt = collections.namedtuple('Stmt', 'kind a b')
Term = collections.namedtuple('Term', 'kind data')


def parse_targets(t):
    """'[return: bb1, unwind: bb2]' or 'bb3' or 'unwind continue' -> dict"""
    t = t.strip()
    d = {}
    if t.startswith('['):
        for part in split_top(t[1:-1]):
            if ':' in part:
                k, v = part.split(':', 1)
                d[k.strip()] = v.strip()
            else:
                k, v = part.split(' ', 1)
                d[k.strip()] = v.strip()
    else:
        d['_'] = t
    return d


def parse_stmt(line):
    s = line.strip()
    assert s.endswith(';'), s
    s = s[:-1]
    if s.startswith(('StorageLive(', 'StorageDead(', 'ConstEvalCounter', 'nop', 'FakeRead(', 'PlaceMention(', 'AscribeUserType(', 'Coverage', 'Retag(', 'Deinit(')):
        return Stmt('nop', s, None)
    if s == 'return':
        return Term('return', None)
    if s == 'unreachable':
        return Term('unreachable', None)
    if s == 'resume' or s.startswith('terminate'):
        return Term('resume', None)
    if s.startswith('goto -> '):
        return Term('goto', s[8:])
    if s.startswith('switchInt('):
        k = match_close(s, len('switchInt'))
        op = parse_operand(s[len('switchInt('):k])
        arms = parse_targets(s[k + 1:].split('->', 1)[1])
        return Term('switch', (op, arms))
    if s.startswith('drop('):
        k = match_close(s, 4)
        return Term('drop', (parse_place(s[5:k]), parse_targets(s[k + 1:].split('->', 1)[1])))
    if s.startswith('assert('):
        k = match_close(s, 6)
        args = split_top(s[7:k])
        cond = args[0]
        neg = cond.startswith('!')
        return Term('assert', (neg, parse_operand(cond[1:] if neg else cond), args[1], parse_targets(s[k + 1:].split('->', 1)[1])))
    if s.startswith('discriminant('):
        k = match_close(s, len('discriminant'))
        return Stmt('setdiscr', parse_place(s[len('discriminant('):k]), s[k + 1:].split('=', 1)[1].strip())
    # assignment or call
    # find top-level ' = '
    eq = -1
    for i, c in top_positions(s):
        if c == '=' and s[i - 1] == ' ' and s[i + 1:i + 2] == ' ':
            eq = i; break
    lhs, rhs = (s[:eq - 1], s[eq + 2:]) if eq >= 0 else (None, s)
    # call?  "... ) -> [return: ..]"  or ") -> unwind .."
    m = re.search(r'\) -> (\[.*\]|unwind .*|bb\d+)$', rhs)
    if m and not rhs.startswith(('copy ', 'move ', 'const ', '&')):
        callpart = rhs[:m.start() + 1]
        j = next(i for i, c in top_positions(callpart) if c == '(')
        assert match_close(callpart, j) == len(callpart) - 1, callpart
        callee, args = callpart[:j], callpart[j + 1:-1]
        if callee.startswith(('copy ', 'move ')):
            callee = parse_operand(callee)
        return Term('call', (parse_place(lhs) if lhs else None, callee, [parse_operand(a) for a in split_top(args)], parse_targets(m.group(1))))
    assert lhs is not None, s
    return Stmt('assign', parse_place(lhs), parse_rvalue(rhs))


Body = collections.namedtuple('Body', 'kind name sig locals blocks raw_header')


def parse_items(text):
    items = {}
    lines = text.split('\n')
    i, n = 0, len(lines)
    while i < n:
        ln = lines[i]
        if ln.startswith(('fn ', 'const ', 'static ')) and ln.rstrip().endswith('{'):
            j = i + 1
            while lines[j] != '}':
                j += 1
            body = lines[i + 1:j]
            header = ln
            kind = header.split(' ', 1)[0]
            if kind == 'fn':
                k = header.index('(', header.index(' ') + 1) if not header.startswith('fn <') else None
                # name ends at the '(' that starts the arg list: find first '(' at depth 0 of <>
                depth = 0
                for k, c in enumerate(header[3:], 3):
                    if c in '<[{':
                        depth += 1
                    elif c in '>]}' and header[k - 1] != '-':
                        depth -= 1
                    elif c == '(' and depth == 0:
                        break
                name = header[3:k]
            else:
                name = header.split(' ', 1)[1].split(':', 1)[0]
                m = re.match(r'^(?:const|static(?: mut)?) (.+?): ', header)
                # names may contain ':' (paths) -> use regex on ': ' followed by type and ' = {'
                name = header[len(kind) + 1: header.rindex(' = {')]
                # strip trailing ': TYPE' at top level
                depth = 0
                for k, c in enumerate(name):
                    if c in '<[({':
                        depth += 1
                    elif c in '>])}' and name[k - 1] != '-':
                        depth -= 1
                    elif c == ':' and depth == 0 and name[k + 1:k + 2] == ' ':
                        name = name[:k]; break
            locals_, blocks, cur = {}, {}, None
            for b in body:
                t = b.strip()
                if not t or t.startswith(('debug ', 'scope ', '}', '//')):
                    if t == '}' and cur is not None and b.startswith('    }'):
                        cur = None
                    continue
                m = re.match(r'^let (mut )?_(\d+): (.*);$', t)
                if m and cur is None:
                    locals_[int(m.group(2))] = m.group(3); continue
                m = re.match(r'^(bb\d+)( \(cleanup\))?: \{$', t)
                if m:
                    cur = m.group(1); blocks[cur] = []; continue
                if cur is not None:
                    blocks[cur].append(t)
            items.setdefault(name, []).append(Body(kind, name, header, locals_, blocks, header))
            i = j + 1
            continue
        i += 1
    return items


if __name__ == '__main__':
    import time
    t0 = time.time()
    text = open(sys.argv[1]).read()
    items = parse_items(text)
    print('items', len(items), 'parse split %.2fs' % (time.time() - t0))
    skip = re.compile(r'::_::|schema|setup_|validate_execute_invalid|>::fmt$')
    ok = bad = 0
    errs = collections.Counter()
    t0 = time.time()
    for name, bodies in items.items():
        if skip.search(name):
            continue
        for b in bodies:
            for bb, stmts in b.blocks.items():
                for s in stmts:
                    try:
                        parse_stmt(s); ok += 1
                    except Exception as e:
                        bad += 1
                        if errs[type(e).__name__ + str(e)[:60]] < 1:
                            print('FAIL', name[:60], bb, s[:200], '::', repr(e)[:100])
                        errs[type(e).__name__ + str(e)[:60]] += 1
    print('stmts ok', ok, 'bad', bad, 'stmt parse %.2fs' % (time.time() - t0))
