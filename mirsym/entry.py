"""builders for the other entry points: instantiate, migrate, query (symbolic messages, symbolic stores)"""
import re, os
import z3
from .engine import (Adt, U, some, NONE, Coin, Addr, EMPTY, Opaque, lit, clone, f_uuid_ok, f_uuid_hyph, f_dec_ok, f_dec_n, f_dec_d, f_addr_ok,
                     f_sv_ok, f_sv_maj, f_sv_min, f_sv_pat, f_sv_pre)
from . import world as W
from .models import Entry
from . import steps as ST


def package_info(repo=None):
    from . import runner as _R
    repo = repo or _R.REPO
    txt = open(os.path.join(repo, 'Cargo.toml')).read()
    pkg = txt.split('[package]', 1)[1].split('\n[', 1)[0]
    name = re.search(r'^name\s*=\s*"([^"]+)"', pkg, re.M).group(1)
    ver = re.search(r'^version\s*=\s*"([^"]+)"', pkg, re.M).group(1)
    return name.replace('-', '_'), ver


def semver_facts(text):
    """facts about a concrete version literal (the package version stamped by instantiate / migrate)"""
    t = lit(text)
    m = re.match(r'^(\d+)\.(\d+)\.(\d+)(-[0-9A-Za-z.-]+)?(\+[0-9A-Za-z.-]+)?$', text)
    if not m:
        return [z3.Not(f_sv_ok(t))]
    return [f_sv_ok(t), f_sv_maj(t) == int(m.group(1)), f_sv_min(t) == int(m.group(2)), f_sv_pat(t) == int(m.group(3)), f_sv_pre(t) == bool(m.group(4))]


# ------------------------------------------------------------------ instantiate
def specs_instantiate(tier):
    out = []
    for bits in range(16):
        opt = tuple((n, bool(bits >> i & 1)) for i, n in enumerate(('ask_fee_rate', 'ask_fee_account', 'bid_fee_rate', 'bid_fee_account')))
        for n_appr in (0, 2):
            for n_exec in ((0, 1, 2) if tier == 'thorough' or bits in (0, 15) else (1,)):
                for n_quote in (0, 1):
                    for n_conv in ((0, 1) if bits in (0, 15) else (1,)):
                        for n_attr in ((0, 1) if bits == 15 else (0,)):
                            out.append(dict(kind='Instantiate', opt=opt, n_appr=n_appr, n_exec=n_exec, n_quote=n_quote, n_conv=n_conv, n_attr=n_attr))
    out[0]['with_integrality'] = True
    return out


def build_instantiate(eng, bounds, spec):
    sc = W.Scenario(eng, bounds, ST.label(spec))
    sc.world.closed = True          # instantiation starts from the empty store: a namespace nothing has written yet is empty
    ti = eng.ti
    S, I = sc.s, sc.i
    opt = dict(spec['opt'])
    req = {'kind': 'Instantiate', 'spec': spec}

    def ostr(name, decimal=False):
        if not opt[name]:
            return NONE(), None
        t = sc.free_decimal_string('req.' + name)[0] if decimal else S('req.' + name)
        return some(t), t
    vals = {}
    vals['ask_fee_rate'], req['ask_fee_rate'] = ostr('ask_fee_rate', True)
    vals['ask_fee_account'], req['ask_fee_account'] = ostr('ask_fee_account')
    vals['bid_fee_rate'], req['bid_fee_rate'] = ostr('bid_fee_rate', True)
    vals['bid_fee_account'], req['bid_fee_account'] = ostr('bid_fee_account')
    req['name'], req['base_denom'] = S('req.name'), S('req.base_denom')
    req['conv'] = [S('req.conv%d' % k) for k in range(spec['n_conv'])]
    req['quotes'] = [S('req.quote%d' % k) for k in range(spec['n_quote'])]
    req['approvers'] = [S('req.approver%d' % k) for k in range(spec['n_appr'])]
    req['executors'] = [S('req.executor%d' % k) for k in range(spec['n_exec'])]
    req['ask_attrs'] = [S('req.ask_attr%d' % k) for k in range(spec['n_attr'])]
    req['bid_attrs'] = [S('req.bid_attr%d' % k) for k in range(spec['n_attr'])]
    req['P'] = I('req.precision', 0, 2 ** 40)        # beyond u32 as well: `as u32` casts wrap
    req['I'] = I('req.increment', 0, 10 ** 24)
    msg = ti.mk('InstantiateMsg', name=req['name'], base_denom=req['base_denom'], convertible_base_denoms=req['conv'], supported_quote_denoms=req['quotes'],
                approvers=req['approvers'], executors=req['executors'], ask_fee_rate=vals['ask_fee_rate'], ask_fee_account=vals['ask_fee_account'],
                bid_fee_rate=vals['bid_fee_rate'], bid_fee_account=vals['bid_fee_account'], ask_required_attributes=req['ask_attrs'],
                bid_required_attributes=req['bid_attrs'], price_precision=U(req['P']), size_increment=U(req['I']))
    req['msg'] = msg
    req['sender'] = S('req.sender')
    sc.funds = []
    sc.world.attrs = []
    req['step'] = {'kind': 'instantiate', 'sender': req['sender'], 'funds': [], 'msg': msg}
    name, ver = package_info()
    req['pkg_name'], req['pkg_version'] = name, ver
    return sc, req


def run_instantiate(sc, req):
    ti = sc.ti
    info = ti.mk('MessageInfo', sender=Addr(req['sender']), funds=[])
    for fin in sc.run_entry('instantiate', [sc.deps(), sc.env(), info, req['msg']]):
        yield W.Path(fin)


# ------------------------------------------------------------------ migrate
EVENT_SHAPES = [('Fill', True), ('Fill', False), ('Refund', True), ('Refund', False), ('Reject', True), ('Reject', False)]


def specs_migrate(tier, for_c15=False):
    out = []
    names = ('approvers', 'ask_fee_rate', 'ask_fee_account', 'bid_fee_rate', 'bid_fee_account', 'ask_required_attributes', 'bid_required_attributes')
    if not for_c15:
        for bits in range(128):
            opt = tuple((n, bool(bits >> i & 1)) for i, n in enumerate(names))
            out.append(dict(kind='Migrate', opt=opt, cfg_fee=bool(bits & 1), bids=(('v3', True), ('v2', (('Fill', True),))), ask='Ready', n_appr_req=2))
        for n in (0, 1, 3):
            out.append(dict(kind='Migrate', opt=tuple((x, x == 'approvers') for x in names), cfg_fee=False, bids=(), ask='Basic', n_appr_req=n))
        return out
    none = tuple((n, False) for n in names)
    maxlen = 2 if tier == 'quick' else 3
    import itertools
    for ln in range(maxlen + 1):
        for evs in itertools.product(EVENT_SHAPES, repeat=ln):
            if tier == 'thorough' and ln == 3 and hash(evs) % 4:
                continue
            out.append(dict(kind='Migrate', opt=none, cfg_fee=False, bids=(('v2', tuple(evs)),), ask=None, n_appr_req=0))
    out.append(dict(kind='Migrate', opt=none, cfg_fee=False, bids=(('v2', (('Fill', True), ('Reject', False))), ('v3', True), ('v2', ()), ('v3', False)), ask='Basic', n_appr_req=0))
    out.append(dict(kind='Migrate', opt=none, cfg_fee=False, bids=(('v3', True), ('v3', False)), ask='Pending', n_appr_req=0))
    out.append(dict(kind='Migrate', opt=none, cfg_fee=False, bids=(), ask=None, n_appr_req=0))
    return out


def add_v2_bid(sc, events, idx):
    """legacy bid with an event log; amounts symbolic, only bounded (earlier contract versions are out of reach: no Inv is assumed on the log)"""
    ti = sc.ti
    px = 'bid%d' % idx
    B = sc.b.B
    key = sc.s(px + '.key')
    quote = sc.s(px + '.quote_denom')
    based = sc.s(px + '.base_denom')
    evs = []
    rec_events = []
    for k, (variant, hasfee) in enumerate(events):
        ep = '%s.ev%d' % (px, k)
        amt = lambda n: sc.i(ep + '.' + n, 0, B)
        # every coin of an event carries its own (symbolic) denomination: the sums of the statement are over amounts
        ev_base, ev_quote, ev_fee = sc.s(ep + '.base_denom'), sc.s(ep + '.quote_denom'), sc.s(ep + '.fee_denom')
        fee = some(Coin(ev_fee, amt('fee'))) if hasfee else NONE()
        if variant == 'Fill':
            act = ti.mk('Action', 'Fill', base=Coin(ev_base, amt('base')), fee=fee, price=sc.s(ep + '.price'), quote=Coin(ev_quote, amt('quote')))
        elif variant == 'Refund':
            act = ti.mk('Action', 'Refund', fee=fee, quote=Coin(ev_quote, amt('quote')))
        else:
            act = ti.mk('Action', 'Reject', base=Coin(ev_base, amt('base')), fee=fee, quote=Coin(ev_quote, amt('quote')))
        evs.append(ti.mk('Event', action=act, block_info=Adt('BlockInfo', None, [sc.i(ep + '.height', 0, 2 ** 63), Adt('Timestamp', None, [sc.i(ep + '.time', 0, 2 ** 63)])])))
        rec_events.append(dict(variant=variant, hasfee=hasfee, base=sc.sym.get(ep + '.base'), quote=sc.sym[ep + '.quote'], fee=sc.sym.get(ep + '.fee')))
    hasfee = len(events) % 2 == 1 or any(h for _, h in events)
    fee = some(Coin(quote, sc.i(px + '.fee', 0, B))) if hasfee else NONE()
    val = ti.mk('BidOrderV2', base=Coin(based, sc.i(px + '.base', 0, B)), events=evs, fee=fee, id=sc.s(px + '.id'), owner=Addr(sc.s(px + '.owner')), price=sc.s(px + '.price'),
                quote=Coin(quote, sc.i(px + '.quote', 0, B)))
    for o in sc.world.maps['bid']:
        sc.assume.append(o.key != key)
    sc.world.maps['bid'].append(Entry(key, z3.BoolVal(True), val, 'BidOrderV2'))
    rec = dict(prefix=px, key=key, val=val, fmt='v2', events=rec_events)
    sc.bids.append(rec)
    return rec


def build_migrate(eng, bounds, spec):
    sc = W.Scenario(eng, bounds, ST.label(spec))
    ti = eng.ti
    S = sc.s
    sc.make_cfg(ask_fee=spec['cfg_fee'], bid_fee=spec['cfg_fee'], n_appr=1, n_exec=1, n_conv=1, n_quote=1, n_ask_attr=1, n_bid_attr=0)
    if spec['ask']:
        sc.add_ask(spec['ask'])
    for k, (fmt, detail) in enumerate(spec['bids']):
        if fmt == 'v3':
            # keep indices aligned with prefixes: add_bid numbers by current length
            while len(sc.bids) < k:
                break
            sc.add_bid(bool(detail))
        else:
            add_v2_bid(sc, detail, len(sc.bids))
    opt = dict(spec['opt'])
    req = {'kind': 'Migrate', 'spec': spec}

    def ostr(name, decimal=False):
        if not opt[name]:
            return NONE(), None
        t = sc.free_decimal_string('req.' + name)[0] if decimal else S('req.' + name)
        return some(t), t

    def olist(name, role, n):
        if not opt[name]:
            return NONE(), None
        l = [S('req.%s%d' % (role, k)) for k in range(n)]
        return some(l), l
    vals = {}
    vals['approvers'], req['approvers'] = olist('approvers', 'approver', spec['n_appr_req'])
    vals['ask_fee_rate'], req['ask_fee_rate'] = ostr('ask_fee_rate', True)
    vals['ask_fee_account'], req['ask_fee_account'] = ostr('ask_fee_account')
    vals['bid_fee_rate'], req['bid_fee_rate'] = ostr('bid_fee_rate', True)
    vals['bid_fee_account'], req['bid_fee_account'] = ostr('bid_fee_account')
    vals['ask_required_attributes'], req['ask_required_attributes'] = olist('ask_required_attributes', 'ask_attr', 2)
    vals['bid_required_attributes'], req['bid_required_attributes'] = olist('bid_required_attributes', 'bid_attr', 1)
    msg = ti.mk('MigrateMsg', **vals)
    req['msg'] = msg
    req['sender'] = S('req.sender')
    sc.funds = []
    sc.world.attrs = []
    req['step'] = {'kind': 'migrate', 'msg': msg}
    name, ver = package_info()
    req['pkg_name'], req['pkg_version'] = name, ver
    sc.assume += semver_facts(ver)
    req['version'] = sc.sym['ver.version']
    return sc, req


def run_migrate(sc, req):
    for fin in sc.run_entry('migrate', [sc.deps(), sc.env(), req['msg']]):
        yield W.Path(fin)


def run_migrate_again(sc, req, path):
    """second migration with the same message from the post-state of an accepted first one"""
    for fin in sc.run_entry('migrate', [sc.deps(), sc.env(), req['msg']], world=path.world, pc=path.pc):
        yield W.Path(fin)


# ------------------------------------------------------------------ query
def specs_query(tier):
    out = []
    for cls in ('Basic', 'Pending', 'Ready'):
        out.append(dict(kind='Query', q='GetAsk', ask=cls, bidfee=False))
    for bf in (False, True):
        out.append(dict(kind='Query', q='GetBid', ask='Basic', bidfee=bf))
    for fee in (False, True):
        out.append(dict(kind='Query', q='GetContractInfo', ask='Ready', bidfee=fee))
        out.append(dict(kind='Query', q='GetVersionInfo', ask='Basic', bidfee=fee))
    return out


def build_query(eng, bounds, spec):
    sc = W.Scenario(eng, bounds, ST.label(spec))
    ti = eng.ti
    sc.make_cfg(ask_fee=spec['bidfee'], bid_fee=spec['bidfee'], n_appr=1, n_exec=2, n_conv=1, n_quote=2, n_ask_attr=1, n_bid_attr=1)
    pa, pb = z3.Bool('ask0.present'), z3.Bool('bid0.present')
    sc.sym['ask0.present'], sc.sym['bid0.present'] = pa, pb
    sc.add_ask(spec['ask'], present=pa)
    sc.add_bid(spec['bidfee'], present=pb)
    sc.add_ask('Ready' if spec['ask'] != 'Ready' else 'Basic')
    sc.add_bid(not spec['bidfee'])
    sc.abstract_rest()
    req = {'kind': 'Query', 'spec': spec, 'q': spec['q']}
    if spec['q'] in ('GetAsk', 'GetBid'):
        req['id'] = sc.s('req.id')
        msg = ti.mk('QueryMsg', spec['q'], id=req['id'])
    else:
        msg = Adt('QueryMsg', spec['q'], [])
    req['msg'] = msg
    req['sender'] = sc.s('req.sender')
    sc.funds = []
    sc.world.attrs = []
    req['step'] = {'kind': 'query', 'msg': msg}
    return sc, req


def run_query(sc, req):
    ti = sc.ti
    deps = ti.mk('Deps', storage=Opaque('storage'), api=Opaque('api'), querier=Adt('QuerierWrapper', None, [Opaque('q')]))
    for fin in sc.run_entry('query', [deps, sc.env(), req['msg']]):
        yield W.Path(fin)
