"""step(K): build the symbolic pre-state and request for one request kind and discrete shape (spec), run the real `execute`."""
import z3
from .engine import Adt, U, some, NONE, Coin, EMPTY, Opaque, f_uuid_ok, f_uuid_hyph, f_dec_ok, f_dec_n, f_dec_d, f_addr_ok
from . import world as W

ASK_KINDS = ['CancelAsk', 'ExpireAsk', 'RejectAskNone', 'RejectAskSome']
BID_KINDS = ['CancelBid', 'ExpireBid', 'RejectBidNone', 'RejectBidSome']
ALL_KINDS = ASK_KINDS + BID_KINDS + ['ApproveAsk', 'CreateAsk', 'CreateBid', 'ExecuteMatch', 'ModifyContract']


def label(spec):
    return ' '.join('%s=%s' % (k, spec[k]) for k in sorted(spec) if not k.startswith('_'))


def default_spec(kind, **kw):
    d = dict(kind=kind, ask='Basic', bidfee=False, cfg_ask_fee=False, cfg_bid_fee=False, nfunds=0, n_exec=2, n_appr=1, n_conv=1, n_quote=1,
             n_ask_attr=0, n_bid_attr=0, n_attrs=0, extra_ask=None, extra_bid=None, reqfee=False, markers=None, mod=None, lens=None)
    d.update(kw)
    return d


def thorough_variants(specs):
    """thorough tier: the same shapes over richer configurations (more executors / approvers / convertible and quote denominations)"""
    out = []
    for s in specs:
        out.append(s)
        if s['kind'] in ('CreateAsk', 'CreateBid', 'ModifyContract'):
            continue
        t = dict(s, n_exec=3, n_appr=max(s['n_appr'], 2), n_quote=2, n_conv=2 if s['n_conv'] else 0)
        if s['kind'] == 'ExecuteMatch' and s.get('markers') and not all(f == (i % 2 == 0) for i, (_, f) in enumerate(s['markers'])):
            continue          # the enriched configuration once per shape (mixed marker assignment), not once per assignment
        out.append(t)
    return out


def specs_for(kinds, tier, funds_variants=True):
    """shape enumeration used by most properties"""
    out = []
    for k in kinds:
        if k in ASK_KINDS:
            for cls in ('Basic', 'Pending', 'Ready'):
                out.append(default_spec(k, ask=cls))
            if funds_variants:
                out.append(default_spec(k, ask='Ready', nfunds=1))
        elif k in BID_KINDS:
            for bf in (False, True):
                out.append(default_spec(k, bidfee=bf, cfg_bid_fee=bf))
            if funds_variants:
                out.append(default_spec(k, bidfee=True, cfg_bid_fee=True, nfunds=1))
        elif k == 'ApproveAsk':
            for cls in ('Basic', 'Pending', 'Ready'):
                for nf in ((0, 1, 2) if cls == 'Pending' else (1,)):
                    out.append(default_spec(k, ask=cls, nfunds=nf, n_appr=2))
            out.append(default_spec(k, ask='Pending', nfunds=1, n_appr=0))
        elif k == 'ExecuteMatch':
            for cls in ('Basic', 'Ready', 'Pending'):
                for bf in (False, True):
                    for af in (False, True):
                        cbs = (True, False) if bf else (False,)
                        for cb in cbs:
                            if cls == 'Pending' and (af or (bf and not cb)):
                                continue
                            # the marker-type assignment is split into separate jobs (same coverage, better load balance)
                            names = ('base', 'quote') if cls != 'Ready' else ('base', 'quote', 'conv')
                            if cls == 'Pending':
                                out.append(default_spec(k, ask=cls, bidfee=bf, cfg_ask_fee=af, cfg_bid_fee=cb))
                                continue
                            for bits in range(2 ** len(names)):
                                mk = tuple((n, bool(bits >> i & 1)) for i, n in enumerate(names))
                                out.append(default_spec(k, ask=cls, bidfee=bf, cfg_ask_fee=af, cfg_bid_fee=cb, markers=mk))
            if funds_variants:
                out.append(default_spec(k, ask='Basic', nfunds=1))
        elif k == 'CreateAsk':
            for nf in (0, 1, 2):
                out.append(default_spec(k, nfunds=nf, n_conv=2 if tier == 'thorough' else 1, n_quote=2))
            out.append(default_spec(k, nfunds=1, n_ask_attr=1, n_attrs=1))
            out.append(default_spec(k, nfunds=0, n_ask_attr=2, n_attrs=2))
            out.append(default_spec(k, nfunds=1, n_ask_attr=2, n_attrs=1))
            out.append(default_spec(k, nfunds=1, n_conv=0))
        elif k == 'CreateBid':
            for reqfee in (False, True):
                for cb in (False, True):
                    for nf in (0, 1, 2):
                        out.append(default_spec(k, reqfee=reqfee, cfg_bid_fee=cb, nfunds=nf, n_quote=2))
            out.append(default_spec(k, reqfee=True, cfg_bid_fee=True, nfunds=1, n_bid_attr=1, n_attrs=1))
            out.append(default_spec(k, reqfee=False, cfg_bid_fee=False, nfunds=0, n_bid_attr=2, n_attrs=2))
            out.append(default_spec(k, reqfee=False, cfg_bid_fee=False, nfunds=1, n_bid_attr=2, n_attrs=1))
        elif k == 'ModifyContract':
            names = ['approvers', 'executors', 'ask_fee_rate', 'ask_fee_account', 'bid_fee_rate', 'bid_fee_account', 'ask_required_attributes', 'bid_required_attributes']
            cfgs = [(False, False), (True, True)] if tier == 'quick' else [(False, False), (True, True), (True, False), (False, True)]
            for af, bf in cfgs:
                for bits in range(256):
                    mod = tuple((n, bool(bits >> i & 1)) for i, n in enumerate(names))
                    out.append(default_spec(k, cfg_ask_fee=af, cfg_bid_fee=bf, mod=mod, lens=(('approvers', 2), ('executors', 1)), n_appr=1 + (bits & 1), n_ask_attr=1, n_bid_attr=bits >> 7 & 1))
                # list-length corner cases
                for nm in ('approvers', 'executors', 'ask_required_attributes', 'bid_required_attributes'):
                    for ln in (0, 1, 2, 3):
                        mod = tuple((n, n == nm) for n in names)
                        out.append(default_spec(k, cfg_ask_fee=af, cfg_bid_fee=bf, mod=mod, lens=((nm, ln),), n_appr=2, n_ask_attr=1, n_bid_attr=1))
            out.append(default_spec(k, mod=tuple((n, False) for n in names), nfunds=1))
    if tier == 'thorough':
        out = thorough_variants(out)
    return out


def build(eng, bounds, spec):
    """-> (scenario, req) ; req: dict describing the request's symbolic fields and the ExecuteMsg value"""
    sc = W.Scenario(eng, bounds, label(spec))
    ti = eng.ti
    kind = spec['kind']
    sc.make_cfg(ask_fee=spec['cfg_ask_fee'], bid_fee=spec['cfg_bid_fee'], n_appr=spec['n_appr'], n_exec=spec['n_exec'], n_conv=spec['n_conv'],
                n_quote=spec['n_quote'], n_ask_attr=spec['n_ask_attr'], n_bid_attr=spec['n_bid_attr'])
    if spec['n_conv'] == 0 and spec['ask'] != 'Basic':
        raise ValueError('convertible ask without convertible denoms')
    # the named book: one ask and one bid whose presence is symbolic (so "not on the book" is covered), optional second ones
    pa = z3.Bool('ask0.present')
    pb = z3.Bool('bid0.present')
    sc.sym['ask0.present'], sc.sym['bid0.present'] = pa, pb
    sc.add_ask(spec['ask'], present=pa)
    sc.add_bid(spec['bidfee'], present=pb)
    if spec.get('extra_ask'):
        sc.add_ask(spec['extra_ask'])
    if spec.get('extra_bid') is not None:
        sc.add_bid(bool(spec['extra_bid']))
    sc.abstract_rest()
    sc.set_attrs(spec['n_attrs'])
    if spec.get('markers'):
        from .harness import restricted
        terms = {'base': sc.cfgf('base_denom'), 'quote': sc.bids[0]['quote'], 'conv': sc.asks[0]['base']}
        for name, flag in spec['markers']:
            sc.assume.append(restricted(terms[name]) == flag)
    req = make_request(sc, spec, 'req')
    return sc, req


def make_request(sc, spec, PX='req'):
    """symbolic request of spec['kind'] with symbols named PX.*"""
    eng, bounds, ti = sc.eng, sc.b, sc.ti
    kind = spec['kind']
    S, I = sc.s, sc.i
    B = bounds.B
    req = {'kind': kind, 'spec': spec, 'prefix': PX}
    if kind in ASK_KINDS or kind in BID_KINDS or kind == 'ApproveAsk':
        rid = S(PX + '.id')
        req['id'] = rid
    if kind == 'CancelAsk':
        msg = ti.mk('ExecuteMsg', 'CancelAsk', id=rid)
    elif kind == 'CancelBid':
        msg = ti.mk('ExecuteMsg', 'CancelBid', id=rid)
    elif kind == 'ExpireAsk':
        msg = ti.mk('ExecuteMsg', 'ExpireAsk', id=rid)
    elif kind == 'ExpireBid':
        msg = ti.mk('ExecuteMsg', 'ExpireBid', id=rid)
    elif kind in ('RejectAskNone', 'RejectBidNone'):
        msg = ti.mk('ExecuteMsg', kind[:9], id=rid, size=NONE())
        req['cancel_size'] = None
    elif kind in ('RejectAskSome', 'RejectBidSome'):
        c = I(PX + '.size', 0, B)
        req['cancel_size'] = c
        msg = ti.mk('ExecuteMsg', kind[:9], id=rid, size=some(U(c)))
    elif kind == 'ApproveAsk':
        req['base'], req['size'] = S(PX + '.base'), I(PX + '.size', 0, B)
        msg = ti.mk('ExecuteMsg', 'ApproveAsk', id=rid, base=req['base'], size=U(req['size']))
    elif kind == 'CreateAsk':
        ps, pn, pd = sc.free_decimal_string(PX + '.price')
        req.update(id=S(PX + '.id'), base=S(PX + '.base'), quote=S(PX + '.quote'), price=ps, pn=pn, pd=pd, size=I(PX + '.size', 0, B))
        msg = ti.mk('ExecuteMsg', 'CreateAsk', id=req['id'], base=req['base'], quote=req['quote'], price=ps, size=U(req['size']))
    elif kind == 'CreateBid':
        ps, pn, pd = sc.free_decimal_string(PX + '.price')
        req.update(id=S(PX + '.id'), base=S(PX + '.base'), quote=S(PX + '.quote'), price=ps, pn=pn, pd=pd, size=I(PX + '.size', 0, B), quote_size=I(PX + '.quote_size', 0, B))
        if spec['reqfee']:
            req['fee_denom'], req['fee_amount'] = S(PX + '.fee_denom'), I(PX + '.fee_amount', 0, B)
            fee = some(Coin(req['fee_denom'], req['fee_amount']))
        else:
            fee = NONE()
        msg = ti.mk('ExecuteMsg', 'CreateBid', id=req['id'], base=req['base'], fee=fee, price=ps, quote=req['quote'], quote_size=U(req['quote_size']), size=U(req['size']))
    elif kind == 'ExecuteMatch':
        ps, pn, pd = sc.free_decimal_string(PX + '.price')
        req.update(ask_id=S(PX + '.ask_id'), bid_id=S(PX + '.bid_id'), price=ps, pn=pn, pd=pd, size=I(PX + '.size', 0, B))
        msg = ti.mk('ExecuteMsg', 'ExecuteMatch', ask_id=req['ask_id'], bid_id=req['bid_id'], price=ps, size=U(req['size']))
    elif kind == 'ModifyContract':
        m = dict(spec['mod'])
        lens = dict(spec.get('lens') or ())

        def opt_list(name, role):
            if not m.get(name):
                return NONE(), None
            l = [S((PX + '.%s%d') % (role, k)) for k in range(lens.get(name, 1))]
            return some(l), l

        def opt_str(name, decimal=False):
            if not m.get(name):
                return NONE(), None
            if decimal:
                t, _, _ = sc.free_decimal_string(PX + '.' + name)
            else:
                t = S(PX + '.' + name)
            return some(t), t
        fields = {}
        vals = {}
        vals['approvers'], req['approvers'] = opt_list('approvers', 'approver')
        vals['executors'], req['executors'] = opt_list('executors', 'executor')
        vals['ask_fee_rate'], req['ask_fee_rate'] = opt_str('ask_fee_rate', True)
        vals['ask_fee_account'], req['ask_fee_account'] = opt_str('ask_fee_account')
        vals['bid_fee_rate'], req['bid_fee_rate'] = opt_str('bid_fee_rate', True)
        vals['bid_fee_account'], req['bid_fee_account'] = opt_str('bid_fee_account')
        vals['ask_required_attributes'], req['ask_required_attributes'] = opt_list('ask_required_attributes', 'ask_attr')
        vals['bid_required_attributes'], req['bid_required_attributes'] = opt_list('bid_required_attributes', 'bid_attr')
        msg = ti.mk('ExecuteMsg', 'ModifyContract', **vals)
        # the stored version record is a real one (written by instantiate / migrate): parseable
        from .engine import f_sv_ok
        sc.shape['version_symbolic'] = True
    else:
        raise ValueError(kind)
    req['msg'] = msg
    req['sender'] = sc.s(PX + '.sender')
    return req



def run(sc, req, max_paths=200000):
    for fin in sc.execute(req['msg'], nfunds=req['spec']['nfunds'], max_paths=max_paths):
        yield W.Path(fin)


class Follow:
    """view of a scenario whose pre-state is the post-state of an accepted first request (for composed steps)"""

    def __init__(self, sc, path):
        self.__dict__.update(sc.__dict__)
        self._sc = sc
        self.world = path.world
        self.base_pc = list(path.pc)

    def __getattr__(self, name):
        return getattr(self._sc, name)


def run_second(sc, path, spec2, PX='req2'):
    """run a follow-up request of spec2 from the post-state of `path`; yields (follow-scenario, req2, path2)"""
    n0 = len(sc.assume)
    req2 = make_request(sc, spec2, PX)
    funds0 = sc.funds
    info = sc.info(spec2['nfunds'], prefix=PX)
    extra = sc.assume[n0:]
    fol = Follow(sc, path)
    fol.funds = list(sc.funds)
    sc.funds = funds0                      # the first request's attached funds stay the scenario's
    for fin in sc.run_entry('execute', [sc.deps(), sc.env(), info, req2['msg']], world=path.world, pc=list(path.pc) + extra):
        yield fol, req2, W.Path(fin)


# ------------------------------------------------------------------ histories from the empty book (BMC along accepted requests, independent of Inv)
MOD_NAMES = ['approvers', 'executors', 'ask_fee_rate', 'ask_fee_account', 'bid_fee_rate', 'bid_fee_account', 'ask_required_attributes', 'bid_required_attributes']


def history_templates_roles(tier):
    """C05 from the empty store: the role lists are replaced by an accepted configuration change (or were installed by instantiate),
    then every privileged request kind is tried by an arbitrary sender; the reference is the configuration and book actually stored."""
    S = default_spec
    swap = lambda *names: S('ModifyContract', mod=tuple((n, n in names) for n in MOD_NAMES), lens=(('approvers', 1), ('executors', 1)))
    T = []
    nofee = dict(cfg_ask_fee=False, cfg_bid_fee=False)
    for last in ('ExpireAsk', 'CancelAsk') + (('RejectAskNone', 'RejectAskSome') if tier == 'thorough' else ()):
        T.append(dict(name='roles: create ask, replace executors, %s' % last, cfg=nofee, steps=[S('CreateAsk', nfunds=1), swap('executors'), S(last)]))
    for last in ('ExpireBid', 'CancelBid') + (('RejectBidNone', 'RejectBidSome') if tier == 'thorough' else ()):
        T.append(dict(name='roles: create bid, replace executors, %s' % last, cfg=nofee, steps=[S('CreateBid', nfunds=1), swap('executors'), S(last)]))
    T.append(dict(name='roles: replace approvers and executors, create ask, approve', cfg=nofee, steps=[swap('approvers', 'executors'), S('CreateAsk', nfunds=1), S('ApproveAsk', nfunds=1)]))
    T.append(dict(name='roles: create ask and bid, replace executors, match', cfg=nofee, steps=[S('CreateAsk', nfunds=1), S('CreateBid', nfunds=1), swap('executors'), S('ExecuteMatch')]))
    T.append(dict(name='roles: replace executors twice', cfg=nofee, steps=[swap('executors'), swap('executors', 'approvers')]))
    return [dict(kind='History', **t) for t in T]


def history_templates_steps(tier, pid):
    """per-operation statements re-decided on states REACHED from the empty store (no state invariant assumed): the property's obligations
    are evaluated on the last request of each template, over its accepted and its refused paths."""
    S = default_spec
    both, none_, askonly, bidonly = (dict(cfg_ask_fee=True, cfg_bid_fee=True), dict(cfg_ask_fee=False, cfg_bid_fee=False),
                                     dict(cfg_ask_fee=True, cfg_bid_fee=False), dict(cfg_ask_fee=False, cfg_bid_fee=True))
    ask, bid, bidf = S('CreateAsk', nfunds=1), S('CreateBid', nfunds=1), S('CreateBid', nfunds=1, reqfee=True)
    appr, match = S('ApproveAsk', nfunds=1), S('ExecuteMatch')
    T = []
    add = lambda name, cfg, steps: T.append(dict(name='reached: ' + name, cfg=cfg, steps=steps, per_step=True))
    if pid in ('C02', 'C03', 'C09', 'C17', 'C11'):
        add('ask and fee-bearing bid, match', both, [ask, bidf, match])
        add('approved convertible ask and bid, match', askonly, [ask, appr, bid, match])
        add('approvers replaced by a migration between approval and match', none_, [ask, appr, migrate_step(approvers=True), bid, match])
        add('bid fee account changed between bid and match', bidonly, [bidf, S('ModifyContract', mod=tuple((n, n in ('bid_fee_rate', 'bid_fee_account')) for n in MOD_NAMES)), ask, match])
        if tier == 'thorough':
            add('second match on the partially filled orders', both, [ask, bidf, match, match])
            add('match after a partial reject of the bid', bidonly, [bidf, S('RejectBidSome'), ask, match])
    if pid in ('C04', 'C09', 'C17', 'C11', 'C08'):
        if pid != 'C08':
            add('fee-bearing bid partially rejected, then cancelled', bidonly, [bidf, S('RejectBidSome'), S('CancelBid')])
            add('fee-bearing bid partially rejected, then the rest rejected by size', bidonly, [bidf, S('RejectBidSome'), S('RejectBidSome')])
            add('fee-bearing bid partially filled, then expired', bidonly, [bidf, ask, match, S('ExpireBid')])
        add('approved convertible ask partially rejected, then cancelled', none_, [ask, appr, S('RejectAskSome'), S('CancelAsk')])
        add('approved convertible ask partially rejected, then the rest rejected by size', none_, [ask, appr, S('RejectAskSome'), S('RejectAskSome')])
    if pid == 'C08':
        add('approved convertible ask approved again', none_, [ask, appr, appr])
        add('approved convertible ask partially filled, then expired', none_, [ask, appr, bid, match, S('ExpireAsk')])
    if pid == 'C07':
        add('second ask under the id of the first', none_, [ask, ask])
        add('second bid under the id of the first', bidonly, [bidf, bidf])
        add('ask under the id of a cancelled ask', none_, [ask, S('CancelAsk'), ask])
    if pid == 'C06':
        # "after partial fills of any accepted size, partial rejects, changes of fee account, and for orders carried across migration"
        add('fee-bearing bid partially filled, then cancelled by its owner', bidonly, [bidf, ask, match, S('CancelBid')])
        add('fee-bearing bid partially rejected, then expired', bidonly, [bidf, S('RejectBidSome'), S('ExpireBid')])
        add('bid fee account changed, then the bid cancelled', bidonly, [bidf, S('ModifyContract', mod=tuple((n, n in ('bid_fee_rate', 'bid_fee_account')) for n in MOD_NAMES)), S('CancelBid')])
        add('fee-bearing bid carried across a migration that changes the bid fee, then cancelled', bidonly, [bidf, migrate_step(bid_fee_rate=True, bid_fee_account=True), S('CancelBid')])
        add('approved convertible ask carried across a migration that replaces the approvers, then cancelled', none_, [ask, appr, migrate_step(approvers=True), S('CancelAsk')])
        add('approved convertible ask partially rejected, then expired', none_, [ask, appr, S('RejectAskSome'), S('ExpireAsk')])
        add('ask partially filled, then cancelled by its owner', askonly, [ask, bid, match, S('CancelAsk')])
    if pid == 'C16':
        Q = lambda q: dict(kind='Query', q=q, nfunds=0)
        add('fee-bearing bid partially rejected, rest rejected by size, then queried', bidonly, [bidf, S('RejectBidSome'), S('RejectBidSome'), Q('GetBid')])
        add('ask and bid matched, bid queried', both, [ask, bidf, match, Q('GetBid')])
        add('ask and bid matched, ask queried', both, [ask, bidf, match, Q('GetAsk')])
        add('approved convertible ask partially rejected, then queried', none_, [ask, appr, S('RejectAskSome'), Q('GetAsk')])
        add('bid cancelled, then queried', none_, [bid, S('CancelBid'), Q('GetBid')])
        add('configuration changed, then queried', both, [S('ModifyContract', mod=tuple((n, n in ('executors', 'ask_fee_rate', 'ask_fee_account')) for n in MOD_NAMES), lens=(('executors', 1),)), Q('GetContractInfo')])
        add('migrated, then version queried', none_, [migrate_step(approvers=True), Q('GetVersionInfo')])
    if pid == 'C12':
        swap = lambda *names: S('ModifyContract', mod=tuple((n, n in names) for n in MOD_NAMES), lens=(('approvers', 1), ('executors', 1)))
        add('ask opened and cancelled, then fees and approvers changed', both, [ask, S('CancelAsk'), swap('approvers', 'ask_fee_rate', 'ask_fee_account')])
        add('ask open, then fees and approvers changed', both, [ask, swap('approvers', 'ask_fee_rate', 'ask_fee_account')])
        add('bid open, then bid fee changed', both, [bidf, swap('bid_fee_rate', 'bid_fee_account')])
        if tier == 'thorough':
            add('ask and bid matched, then bid fee and approvers changed', both, [ask, bidf, match, swap('approvers', 'bid_fee_rate', 'bid_fee_account')])
    return [dict(kind='History', **t) for t in T]


def history_templates(tier, pid='C01'):
    """sequences of request shapes; every request is fully symbolic, only accepting paths are followed (a refused request is a no-op)"""
    if pid == 'C05':
        return history_templates_roles(tier)
    if pid != 'C01':
        return history_templates_steps(tier, pid)
    S = default_spec
    T = []
    for af in (False, True):
        T.append(dict(name='convertible ask: create, approve, partial reject, cancel', cfg=dict(cfg_ask_fee=af, cfg_bid_fee=False),
                      steps=[S('CreateAsk', nfunds=1), S('ApproveAsk', nfunds=1), S('RejectAskSome'), S('CancelAsk')]))
    T.append(dict(name='fee-bearing bid: create, partial reject, expire', cfg=dict(cfg_ask_fee=False, cfg_bid_fee=True),
                  steps=[S('CreateBid', nfunds=1, reqfee=True), S('RejectBidSome'), S('ExpireBid')]))
    T.append(dict(name='bid and ask: create both, match, cancel bid, cancel ask', cfg=dict(cfg_ask_fee=True, cfg_bid_fee=True),
                  steps=[S('CreateBid', nfunds=1, reqfee=True), S('CreateAsk', nfunds=1), S('ExecuteMatch'), S('CancelBid'), S('CancelAsk')]))
    T.append(dict(name='convertible ask matched after approval, then cancelled', cfg=dict(cfg_ask_fee=False, cfg_bid_fee=False),
                  steps=[S('CreateAsk', nfunds=1), S('ApproveAsk', nfunds=1), S('CreateBid', nfunds=1), S('ExecuteMatch'), S('CancelAsk')]))
    if tier == 'thorough':
        # (a five-request template with two fills was tried here: it did not finish in an hour even with a budget of 2000 histories; the second
        #  fill on partially filled orders is covered by the budgeted reached-state templates of C02 / C03 / C09 / C11 / C17 instead)
        T.append(dict(name='partial reject then match then expire of a bid', cfg=dict(cfg_ask_fee=False, cfg_bid_fee=True),
                      steps=[S('CreateBid', nfunds=1, reqfee=True), S('RejectBidSome'), S('CreateAsk', nfunds=1), S('ExecuteMatch'), S('ExpireBid')]))
    return [dict(kind='History', **t) for t in T]


def build_history(eng, bounds, hspec):
    """empty store; the first request of every history is a symbolic `instantiate` (coherent configurations inside the bounds)"""
    from . import entry as EN
    from .harness import restricted
    from .engine import f_dec_ok, f_dec_n, f_dec_d
    c = hspec['cfg']
    opt = tuple((n, c['cfg_ask_fee'] if n.startswith('ask') else c['cfg_bid_fee']) for n in ('ask_fee_rate', 'ask_fee_account', 'bid_fee_rate', 'bid_fee_account'))
    sc, ireq = EN.build_instantiate(eng, bounds, dict(kind='Instantiate', opt=opt, n_appr=1, n_exec=1, n_quote=1, n_conv=1, n_attr=0))
    sc.label = 'history: ' + hspec['name']
    sc.set_attrs(0)
    sc.assume.append(z3.Or(*[ireq['P'] == k for k in bounds.precisions]))
    sc.assume.append(ireq['I'] < bounds.B)
    for side in ('ask', 'bid'):
        r = ireq[side + '_fee_rate']
        if r is not None:
            sc.assume.append(z3.Implies(f_dec_ok(r), z3.And(f_dec_n(r) >= 0, f_dec_n(r) <= f_dec_d(r))))
            sc.assume.append(ireq[side + '_fee_account'] != W.CONTRACT)
    # the version record instantiate writes is the package's own version: its semver reading is a fact, not a free symbol
    name_, ver_ = EN.package_info()
    sc.assume += EN.semver_facts(ver_)
    sc.shape['semver_facts'] = True
    # every denomination is an ordinary coin in these histories (the mechanism is C10's subject)
    for t in [ireq['base_denom']] + ireq['conv'] + ireq['quotes']:
        sc.assume.append(z3.Not(restricted(t)))
    return sc, ireq


class HistView:
    """the scenario as a per-operation property sees it at one step of a history: the configuration and book stored just before the step"""

    def __init__(self, sc, ireq, pre_world, funds):
        self.__dict__.update(sc.__dict__)
        self._sc = sc
        self.world = pre_world
        self.cfg = pre_world.items.get('contract_info')
        self.funds = list(funds)
        precs = sorted(sc.b.precisions, reverse=True)
        p10 = z3.IntVal(10 ** precs[0])
        for k in precs[1:]:
            p10 = z3.If(ireq['P'] == k, z3.IntVal(10 ** k), p10)
        self.p10 = p10
        self.sym = dict(sc.sym)
        self.sym['cfg.increment'] = ireq['I']

    def __getattr__(self, name):
        return getattr(self._sc, name)

    def cfgf(self, name):
        return self.ti.get(self.cfg, name)


def make_migrate_request(sc, spec, PX):
    """a symbolic MigrateMsg inside an existing scenario (history step)"""
    from . import entry as EN
    ti = sc.ti
    opt = dict(spec['opt'])
    req = {'kind': 'Migrate', 'spec': spec}

    def ostr(name, decimal=False):
        if not opt.get(name):
            return NONE(), None
        t = sc.free_decimal_string(PX + '.' + name)[0] if decimal else sc.s(PX + '.' + name)
        return some(t), t

    def olist(name, role, n):
        if not opt.get(name):
            return NONE(), None
        l = [sc.s('%s.%s%d' % (PX, role, k)) for k in range(n)]
        return some(l), l
    vals = {}
    vals['approvers'], req['approvers'] = olist('approvers', 'approver', spec.get('n_appr_req', 1))
    vals['ask_fee_rate'], req['ask_fee_rate'] = ostr('ask_fee_rate', True)
    vals['ask_fee_account'], req['ask_fee_account'] = ostr('ask_fee_account')
    vals['bid_fee_rate'], req['bid_fee_rate'] = ostr('bid_fee_rate', True)
    vals['bid_fee_account'], req['bid_fee_account'] = ostr('bid_fee_account')
    vals['ask_required_attributes'], req['ask_required_attributes'] = olist('ask_required_attributes', 'ask_attr', 1)
    vals['bid_required_attributes'], req['bid_required_attributes'] = olist('bid_required_attributes', 'bid_attr', 1)
    req['msg'] = ti.mk('MigrateMsg', **vals)
    req['sender'] = sc.s(PX + '.sender')
    req['step'] = {'kind': 'migrate', 'msg': req['msg']}
    if not sc.shape.get('semver_facts'):
        name, ver = EN.package_info()
        sc.assume += EN.semver_facts(ver)
        sc.shape['semver_facts'] = True
    return req


def migrate_step(**opt):
    return dict(kind='Migrate', nfunds=0, opt=tuple(sorted(opt.items())), n_appr_req=1)


def run_history(sc, hspec, ireq, max_paths=12000, final_all=False, truncate=False):
    """depth-first over accepting paths; yields (list of (req, funds, path)) for every complete accepted history
    (final_all: the last request's refused / aborted paths as well, for statements about what must be accepted or refused)"""
    steps = hspec['steps']

    def rec(i, world, pc, trail, stop_at=None):
        if i == (len(steps) if stop_at is None else stop_at):
            yield trail
            return
        spec = dict(steps[i], **hspec['cfg'])
        n0 = len(sc.assume)
        px = 'h%d' % i
        if spec['kind'] == 'Migrate':
            req = make_migrate_request(sc, spec, px)
            funds = []
            extra = sc.assume[n0:]
            it = sc.run_entry('migrate', [sc.deps(), sc.env(), req['msg']], world=world, pc=list(pc) + extra)
        elif spec['kind'] == 'Query':
            req = {'kind': 'Query', 'spec': spec, 'q': spec['q'], 'sender': sc.s(px + '.sender')}
            if spec['q'] in ('GetAsk', 'GetBid'):
                req['id'] = sc.s(px + '.id')
                req['msg'] = sc.ti.mk('QueryMsg', spec['q'], id=req['id'])
            else:
                req['msg'] = Adt('QueryMsg', spec['q'], [])
            req['step'] = {'kind': 'query', 'msg': req['msg']}
            funds = []
            extra = sc.assume[n0:]
            qdeps = sc.ti.mk('Deps', storage=Opaque('storage'), api=Opaque('api'), querier=Adt('QuerierWrapper', None, [Opaque('q')]))
            it = sc.run_entry('query', [qdeps, sc.env(), req['msg']], world=world, pc=list(pc) + extra)
        else:
            req = make_request(sc, spec, px)
            info = sc.info(spec['nfunds'], prefix=px)
            funds = list(sc.funds)
            extra = sc.assume[n0:]
            it = sc.run_entry('execute', [sc.deps(), sc.env(), info, req['msg']], world=world, pc=list(pc) + extra)
        last = i == len(steps) - 1
        for fin in it:
            p = W.Path(fin)
            if p.kind == 'ok':
                yield from rec(i + 1, p.world, p.pc, trail + [(req, funds, p)], stop_at)
            elif last and final_all and p.kind != 'oob':
                yield trail + [(req, funds, p)]
    n = 0
    from . import entry as EN
    if truncate and len(steps) >= 2:
        # budgeted exploration that still visits every accepted prefix: all histories up to the last request first, then the last request
        # from each of them with an equal share of the budget (its accepted paths first)
        import itertools as _it
        prefixes = []
        for p0 in EN.run_instantiate(sc, ireq):
            if p0.kind != 'ok':
                continue
            for tr in rec(0, p0.world, p0.pc, [(ireq, [], p0)], stop_at=len(steps) - 1):
                prefixes.append(tr)
                if len(prefixes) > max_paths:
                    sc.shape['history_truncated'] = True
                    break
        if not prefixes:
            return
        per = max(2, max_paths // len(prefixes))
        for tr in prefixes[:max_paths]:
            w_, pc_ = tr[-1][2].world, tr[-1][2].pc
            got = list(_it.islice(rec(len(steps) - 1, w_, pc_, tr), 3 * per + 1))
            if len(got) > per:
                sc.shape['history_truncated'] = True
            got.sort(key=lambda t: 0 if t[-1][2].kind == 'ok' else 1)
            for t in got[:per]:
                yield t
        return
    for p0 in EN.run_instantiate(sc, ireq):
        if p0.kind != 'ok':
            continue
        for tr in rec(0, p0.world, p0.pc, [(ireq, [], p0)]):
            n += 1
            if n > max_paths:
                if truncate:
                    sc.shape['history_truncated'] = True      # stated coverage bound of the reached-state templates, reported in the evidence
                    return
                raise RuntimeError('history path budget exceeded')
            yield tr
