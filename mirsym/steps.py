"""step(K): build the symbolic pre-state and request for one request kind and discrete shape (spec), run the real `execute`."""
import z3
from .engine import Adt, U, some, NONE, Coin, EMPTY, f_uuid_ok, f_uuid_hyph, f_dec_ok, f_dec_n, f_dec_d, f_addr_ok
from . import world as W

ASK_KINDS = ['CancelAsk', 'ExpireAsk', 'RejectAskNone', 'RejectAskSome']
BID_KINDS = ['CancelBid', 'ExpireBid', 'RejectBidNone', 'RejectBidSome']
ALL_KINDS = ASK_KINDS + BID_KINDS + ['ApproveAsk', 'CreateAsk', 'CreateBid', 'ExecuteMatch', 'ModifyContract']


def label(spec):
    return ' '.join('%s=%s' % (k, spec[k]) for k in sorted(spec))


def default_spec(kind, **kw):
    d = dict(kind=kind, ask='Basic', bidfee=False, cfg_ask_fee=False, cfg_bid_fee=False, nfunds=0, n_exec=2, n_appr=1, n_conv=1, n_quote=1,
             n_ask_attr=0, n_bid_attr=0, n_attrs=0, extra_ask=None, extra_bid=None, reqfee=False, markers=None, mod=None, lens=None)
    d.update(kw)
    return d


def thorough_variants(specs):
    """thorough tier: the same shapes over richer configurations (more executors / approvers / convertible and quote denominations)"""
    out = []
    for s in specs:
        out.append(s)
        if s['kind'] in ('CreateAsk', 'CreateBid', 'ModifyContract'):
            continue
        t = dict(s, n_exec=3, n_appr=max(s['n_appr'], 2), n_quote=2, n_conv=2 if s['n_conv'] else 0)
        if s['kind'] == 'ExecuteMatch' and s.get('markers') and not all(f == (i % 2 == 0) for i, (_, f) in enumerate(s['markers'])):
            continue          # the enriched configuration once per shape (mixed marker assignment), not once per assignment
        out.append(t)
    return out


def specs_for(kinds, tier, funds_variants=True):
    """shape enumeration used by most properties"""
    out = []
    for k in kinds:
        if k in ASK_KINDS:
            for cls in ('Basic', 'Pending', 'Ready'):
                out.append(default_spec(k, ask=cls))
            if funds_variants:
                out.append(default_spec(k, ask='Ready', nfunds=1))
        elif k in BID_KINDS:
            for bf in (False, True):
                out.append(default_spec(k, bidfee=bf, cfg_bid_fee=bf))
            if funds_variants:
                out.append(default_spec(k, bidfee=True, cfg_bid_fee=True, nfunds=1))
        elif k == 'ApproveAsk':
            for cls in ('Basic', 'Pending', 'Ready'):
                for nf in ((0, 1, 2) if cls == 'Pending' else (1,)):
                    out.append(default_spec(k, ask=cls, nfunds=nf, n_appr=2))
            out.append(default_spec(k, ask='Pending', nfunds=1, n_appr=0))
        elif k == 'ExecuteMatch':
            for cls in ('Basic', 'Ready', 'Pending'):
                for bf in (False, True):
                    for af in (False, True):
                        cbs = (True, False) if bf else (False,)
                        for cb in cbs:
                            if cls == 'Pending' and (af or (bf and not cb)):
                                continue
                            # the marker-type assignment is split into separate jobs (same coverage, better load balance)
                            names = ('base', 'quote') if cls != 'Ready' else ('base', 'quote', 'conv')
                            if cls == 'Pending':
                                out.append(default_spec(k, ask=cls, bidfee=bf, cfg_ask_fee=af, cfg_bid_fee=cb))
                                continue
                            for bits in range(2 ** len(names)):
                                mk = tuple((n, bool(bits >> i & 1)) for i, n in enumerate(names))
                                out.append(default_spec(k, ask=cls, bidfee=bf, cfg_ask_fee=af, cfg_bid_fee=cb, markers=mk))
            if funds_variants:
                out.append(default_spec(k, ask='Basic', nfunds=1))
        elif k == 'CreateAsk':
            for nf in (0, 1, 2):
                out.append(default_spec(k, nfunds=nf, n_conv=2 if tier == 'thorough' else 1, n_quote=2))
            out.append(default_spec(k, nfunds=1, n_ask_attr=1, n_attrs=1))
            out.append(default_spec(k, nfunds=0, n_ask_attr=2, n_attrs=2))
            out.append(default_spec(k, nfunds=1, n_ask_attr=2, n_attrs=1))
            out.append(default_spec(k, nfunds=1, n_conv=0))
        elif k == 'CreateBid':
            for reqfee in (False, True):
                for cb in (False, True):
                    for nf in (0, 1, 2):
                        out.append(default_spec(k, reqfee=reqfee, cfg_bid_fee=cb, nfunds=nf, n_quote=2))
            out.append(default_spec(k, reqfee=True, cfg_bid_fee=True, nfunds=1, n_bid_attr=1, n_attrs=1))
            out.append(default_spec(k, reqfee=False, cfg_bid_fee=False, nfunds=0, n_bid_attr=2, n_attrs=2))
            out.append(default_spec(k, reqfee=False, cfg_bid_fee=False, nfunds=1, n_bid_attr=2, n_attrs=1))
        elif k == 'ModifyContract':
            names = ['approvers', 'executors', 'ask_fee_rate', 'ask_fee_account', 'bid_fee_rate', 'bid_fee_account', 'ask_required_attributes', 'bid_required_attributes']
            cfgs = [(False, False), (True, True)] if tier == 'quick' else [(False, False), (True, True), (True, False), (False, True)]
            for af, bf in cfgs:
                for bits in range(256):
                    mod = tuple((n, bool(bits >> i & 1)) for i, n in enumerate(names))
                    out.append(default_spec(k, cfg_ask_fee=af, cfg_bid_fee=bf, mod=mod, lens=(('approvers', 2), ('executors', 1)), n_appr=1 + (bits & 1), n_ask_attr=1, n_bid_attr=bits >> 7 & 1))
                # list-length corner cases
                for nm in ('approvers', 'executors', 'ask_required_attributes', 'bid_required_attributes'):
                    for ln in (0, 1, 2, 3):
                        mod = tuple((n, n == nm) for n in names)
                        out.append(default_spec(k, cfg_ask_fee=af, cfg_bid_fee=bf, mod=mod, lens=((nm, ln),), n_appr=2, n_ask_attr=1, n_bid_attr=1))
            out.append(default_spec(k, mod=tuple((n, False) for n in names), nfunds=1))
    if tier == 'thorough':
        out = thorough_variants(out)
    return out


def build(eng, bounds, spec):
    """-> (scenario, req) ; req: dict describing the request's symbolic fields and the ExecuteMsg value"""
    sc = W.Scenario(eng, bounds, label(spec))
    ti = eng.ti
    kind = spec['kind']
    sc.make_cfg(ask_fee=spec['cfg_ask_fee'], bid_fee=spec['cfg_bid_fee'], n_appr=spec['n_appr'], n_exec=spec['n_exec'], n_conv=spec['n_conv'],
                n_quote=spec['n_quote'], n_ask_attr=spec['n_ask_attr'], n_bid_attr=spec['n_bid_attr'])
    if spec['n_conv'] == 0 and spec['ask'] != 'Basic':
        raise ValueError('convertible ask without convertible denoms')
    # the named book: one ask and one bid whose presence is symbolic (so "not on the book" is covered), optional second ones
    pa = z3.Bool('ask0.present')
    pb = z3.Bool('bid0.present')
    sc.sym['ask0.present'], sc.sym['bid0.present'] = pa, pb
    sc.add_ask(spec['ask'], present=pa)
    sc.add_bid(spec['bidfee'], present=pb)
    if spec.get('extra_ask'):
        sc.add_ask(spec['extra_ask'])
    if spec.get('extra_bid') is not None:
        sc.add_bid(bool(spec['extra_bid']))
    sc.abstract_rest()
    sc.set_attrs(spec['n_attrs'])
    if spec.get('markers'):
        from .harness import restricted
        terms = {'base': sc.cfgf('base_denom'), 'quote': sc.bids[0]['quote'], 'conv': sc.asks[0]['base']}
        for name, flag in spec['markers']:
            sc.assume.append(restricted(terms[name]) == flag)
    req = make_request(sc, spec, 'req')
    return sc, req


def make_request(sc, spec, PX='req'):
    """symbolic request of spec['kind'] with symbols named PX.*"""
    eng, bounds, ti = sc.eng, sc.b, sc.ti
    kind = spec['kind']
    S, I = sc.s, sc.i
    B = bounds.B
    req = {'kind': kind, 'spec': spec, 'prefix': PX}
    if kind in ASK_KINDS or kind in BID_KINDS or kind == 'ApproveAsk':
        rid = S(PX + '.id')
        req['id'] = rid
    if kind == 'CancelAsk':
        msg = ti.mk('ExecuteMsg', 'CancelAsk', id=rid)
    elif kind == 'CancelBid':
        msg = ti.mk('ExecuteMsg', 'CancelBid', id=rid)
    elif kind == 'ExpireAsk':
        msg = ti.mk('ExecuteMsg', 'ExpireAsk', id=rid)
    elif kind == 'ExpireBid':
        msg = ti.mk('ExecuteMsg', 'ExpireBid', id=rid)
    elif kind in ('RejectAskNone', 'RejectBidNone'):
        msg = ti.mk('ExecuteMsg', kind[:9], id=rid, size=NONE())
        req['cancel_size'] = None
    elif kind in ('RejectAskSome', 'RejectBidSome'):
        c = I(PX + '.size', 0, B)
        req['cancel_size'] = c
        msg = ti.mk('ExecuteMsg', kind[:9], id=rid, size=some(U(c)))
    elif kind == 'ApproveAsk':
        req['base'], req['size'] = S(PX + '.base'), I(PX + '.size', 0, B)
        msg = ti.mk('ExecuteMsg', 'ApproveAsk', id=rid, base=req['base'], size=U(req['size']))
    elif kind == 'CreateAsk':
        ps, pn, pd = sc.free_decimal_string(PX + '.price')
        req.update(id=S(PX + '.id'), base=S(PX + '.base'), quote=S(PX + '.quote'), price=ps, pn=pn, pd=pd, size=I(PX + '.size', 0, B))
        msg = ti.mk('ExecuteMsg', 'CreateAsk', id=req['id'], base=req['base'], quote=req['quote'], price=ps, size=U(req['size']))
    elif kind == 'CreateBid':
        ps, pn, pd = sc.free_decimal_string(PX + '.price')
        req.update(id=S(PX + '.id'), base=S(PX + '.base'), quote=S(PX + '.quote'), price=ps, pn=pn, pd=pd, size=I(PX + '.size', 0, B), quote_size=I(PX + '.quote_size', 0, B))
        if spec['reqfee']:
            req['fee_denom'], req['fee_amount'] = S(PX + '.fee_denom'), I(PX + '.fee_amount', 0, B)
            fee = some(Coin(req['fee_denom'], req['fee_amount']))
        else:
            fee = NONE()
        msg = ti.mk('ExecuteMsg', 'CreateBid', id=req['id'], base=req['base'], fee=fee, price=ps, quote=req['quote'], quote_size=U(req['quote_size']), size=U(req['size']))
    elif kind == 'ExecuteMatch':
        ps, pn, pd = sc.free_decimal_string(PX + '.price')
        req.update(ask_id=S(PX + '.ask_id'), bid_id=S(PX + '.bid_id'), price=ps, pn=pn, pd=pd, size=I(PX + '.size', 0, B))
        msg = ti.mk('ExecuteMsg', 'ExecuteMatch', ask_id=req['ask_id'], bid_id=req['bid_id'], price=ps, size=U(req['size']))
    elif kind == 'ModifyContract':
        m = dict(spec['mod'])
        lens = dict(spec.get('lens') or ())

        def opt_list(name, role):
            if not m.get(name):
                return NONE(), None
            l = [S((PX + '.%s%d') % (role, k)) for k in range(lens.get(name, 1))]
            return some(l), l

        def opt_str(name, decimal=False):
            if not m.get(name):
                return NONE(), None
            if decimal:
                t, _, _ = sc.free_decimal_string(PX + '.' + name)
            else:
                t = S(PX + '.' + name)
            return some(t), t
        fields = {}
        vals = {}
        vals['approvers'], req['approvers'] = opt_list('approvers', 'approver')
        vals['executors'], req['executors'] = opt_list('executors', 'executor')
        vals['ask_fee_rate'], req['ask_fee_rate'] = opt_str('ask_fee_rate', True)
        vals['ask_fee_account'], req['ask_fee_account'] = opt_str('ask_fee_account')
        vals['bid_fee_rate'], req['bid_fee_rate'] = opt_str('bid_fee_rate', True)
        vals['bid_fee_account'], req['bid_fee_account'] = opt_str('bid_fee_account')
        vals['ask_required_attributes'], req['ask_required_attributes'] = opt_list('ask_required_attributes', 'ask_attr')
        vals['bid_required_attributes'], req['bid_required_attributes'] = opt_list('bid_required_attributes', 'bid_attr')
        msg = ti.mk('ExecuteMsg', 'ModifyContract', **vals)
        # the stored version record is a real one (written by instantiate / migrate): parseable
        from .engine import f_sv_ok
        sc.shape['version_symbolic'] = True
    else:
        raise ValueError(kind)
    req['msg'] = msg
    req['sender'] = sc.s(PX + '.sender')
    return req



def run(sc, req, max_paths=200000):
    for fin in sc.execute(req['msg'], nfunds=req['spec']['nfunds'], max_paths=max_paths):
        yield W.Path(fin)


class Follow:
    """view of a scenario whose pre-state is the post-state of an accepted first request (for composed steps)"""

    def __init__(self, sc, path):
        self.__dict__.update(sc.__dict__)
        self._sc = sc
        self.world = path.world
        self.base_pc = list(path.pc)

    def __getattr__(self, name):
        return getattr(self._sc, name)


def run_second(sc, path, spec2, PX='req2'):
    """run a follow-up request of spec2 from the post-state of `path`; yields (follow-scenario, req2, path2)"""
    n0 = len(sc.assume)
    req2 = make_request(sc, spec2, PX)
    funds0 = sc.funds
    info = sc.info(spec2['nfunds'], prefix=PX)
    extra = sc.assume[n0:]
    fol = Follow(sc, path)
    fol.funds = list(sc.funds)
    sc.funds = funds0                      # the first request's attached funds stay the scenario's
    for fin in sc.run_entry('execute', [sc.deps(), sc.env(), info, req2['msg']], world=path.world, pc=list(path.pc) + extra):
        yield fol, req2, W.Path(fin)


# ------------------------------------------------------------------ histories from the empty book (BMC along accepted requests, independent of Inv)
def history_templates(tier):
    """sequences of request shapes; every request is fully symbolic, only accepting paths are followed (a refused request is a no-op)"""
    S = default_spec
    T = []
    for af in (False, True):
        T.append(dict(name='convertible ask: create, approve, partial reject, cancel', cfg=dict(cfg_ask_fee=af, cfg_bid_fee=False),
                      steps=[S('CreateAsk', nfunds=1), S('ApproveAsk', nfunds=1), S('RejectAskSome'), S('CancelAsk')]))
    T.append(dict(name='fee-bearing bid: create, partial reject, expire', cfg=dict(cfg_ask_fee=False, cfg_bid_fee=True),
                  steps=[S('CreateBid', nfunds=1, reqfee=True), S('RejectBidSome'), S('ExpireBid')]))
    T.append(dict(name='bid and ask: create both, match, cancel bid, cancel ask', cfg=dict(cfg_ask_fee=True, cfg_bid_fee=True),
                  steps=[S('CreateBid', nfunds=1, reqfee=True), S('CreateAsk', nfunds=1), S('ExecuteMatch'), S('CancelBid'), S('CancelAsk')]))
    T.append(dict(name='convertible ask matched after approval, then cancelled', cfg=dict(cfg_ask_fee=False, cfg_bid_fee=False),
                  steps=[S('CreateAsk', nfunds=1), S('ApproveAsk', nfunds=1), S('CreateBid', nfunds=1), S('ExecuteMatch'), S('CancelAsk')]))
    if tier == 'thorough':
        T.append(dict(name='two fills of one fee-bearing bid, then cancel', cfg=dict(cfg_ask_fee=False, cfg_bid_fee=True),
                      steps=[S('CreateBid', nfunds=1, reqfee=True), S('CreateAsk', nfunds=1), S('ExecuteMatch'), S('ExecuteMatch'), S('CancelBid')]))
        T.append(dict(name='partial reject then match then expire of a bid', cfg=dict(cfg_ask_fee=False, cfg_bid_fee=True),
                      steps=[S('CreateBid', nfunds=1, reqfee=True), S('RejectBidSome'), S('CreateAsk', nfunds=1), S('ExecuteMatch'), S('ExpireBid')]))
    return [dict(kind='History', **t) for t in T]


def build_history(eng, bounds, hspec):
    """empty store; the first request of every history is a symbolic `instantiate` (coherent configurations inside the bounds)"""
    from . import entry as EN
    from .harness import restricted
    from .engine import f_dec_ok, f_dec_n, f_dec_d
    c = hspec['cfg']
    opt = tuple((n, c['cfg_ask_fee'] if n.startswith('ask') else c['cfg_bid_fee']) for n in ('ask_fee_rate', 'ask_fee_account', 'bid_fee_rate', 'bid_fee_account'))
    sc, ireq = EN.build_instantiate(eng, bounds, dict(kind='Instantiate', opt=opt, n_appr=1, n_exec=1, n_quote=1, n_conv=1, n_attr=0))
    sc.label = 'history: ' + hspec['name']
    sc.set_attrs(0)
    sc.assume.append(z3.Or(*[ireq['P'] == k for k in bounds.precisions]))
    sc.assume.append(ireq['I'] < bounds.B)
    for side in ('ask', 'bid'):
        r = ireq[side + '_fee_rate']
        if r is not None:
            sc.assume.append(z3.Implies(f_dec_ok(r), z3.And(f_dec_n(r) >= 0, f_dec_n(r) <= f_dec_d(r))))
            sc.assume.append(ireq[side + '_fee_account'] != W.CONTRACT)
    # every denomination is an ordinary coin in these histories (the mechanism is C10's subject)
    for t in [ireq['base_denom']] + ireq['conv'] + ireq['quotes']:
        sc.assume.append(z3.Not(restricted(t)))
    return sc, ireq


def run_history(sc, hspec, ireq, max_paths=12000):
    """depth-first over accepting paths; yields (list of (req, funds, path)) for every complete accepted history"""
    steps = hspec['steps']

    def rec(i, world, pc, trail):
        if i == len(steps):
            yield trail
            return
        spec = dict(steps[i], **hspec['cfg'])
        n0 = len(sc.assume)
        px = 'h%d' % i
        req = make_request(sc, spec, px)
        funds0 = sc.funds if hasattr(sc, 'funds') else []
        info = sc.info(spec['nfunds'], prefix=px)
        funds = list(sc.funds)
        extra = sc.assume[n0:]
        for fin in sc.run_entry('execute', [sc.deps(), sc.env(), info, req['msg']], world=world, pc=list(pc) + extra):
            p = W.Path(fin)
            if p.kind != 'ok':
                continue
            yield from rec(i + 1, p.world, p.pc, trail + [(req, funds, p)])
    n = 0
    from . import entry as EN
    for p0 in EN.run_instantiate(sc, ireq):
        if p0.kind != 'ok':
            continue
        for tr in rec(0, p0.world, p0.pc, [(ireq, [], p0)]):
            n += 1
            if n > max_paths:
                raise RuntimeError('history path budget exceeded')
            yield tr
